(** The specification-level oracle.

    A world is, abstractly, a set of live entities per archetype, each a handle with its current
    component values; nothing about slots, generations, dense order or capacity growth appears
    here.  [spec_check] replays a trace (operations with the observations some implementation gave)
    against this abstract state and reports the first observation a property forbids, tagged with
    the property it belongs to.  It takes the nondeterministic choices (which handle a create
    returned, in which order a query visited) from the trace itself, so it applies to the real
    gecs as well as to the model.

    It is used (a) on every correspondence run, on the implementation's traces, and (b) when a
    proof or the correspondence breaks, to search for a concrete failing input. *)
From Coq Require Import NArith Bool.
From stdpp Require Import base list numbers option.
From Gecs Require Import Prim ExtrBits Storage Query World Run QuerySpec.
Local Open Scope nat_scope.

(** (property number, reason code) *)
Definition failure := (N * N)%type.

Definition heqb (a b : handle) : bool := N.eqb (fst a) (fst b) && N.eqb (snd a) (snd b).
Definition lNeqb (a b : list N) : bool := bool_decide (a = b).

Record sent := SE { se_h : handle; se_vals : list val }.

Record sarch := SA {
  sa_live : list sent;
  sa_cap : nat;               (* last capacity known *)
  sa_cap_exact : bool;        (* no growth can have happened since *)
  sa_rem : nat;               (* removals so far *)
  sa_cre : nat;               (* creations so far *)
  sa_created : list handle;   (* event logs since the last clear *)
  sa_destroyed : list handle;
  sa_synced : bool;           (* false after a removal whose entity the trace does not identify *)
  sa_evok : bool;             (* false when a clear happened while such a removal was still unidentified *)
}.

Definition sworld := list sarch.

(** What is known about a direct handle in one world: the entity it was issued for (if the trace
    identifies it) and the archetype's removal / creation counts at that moment. *)
Record dinfo := DI { di_world : nat; di_arch : nat; di_ent : option handle; di_rem : nat; di_cre : nat }.

Record sstate := SS {
  s_worlds : list (option sworld);
  s_wissued : list (list handle);     (* per world: every handle issued in its lineage *)
  s_cur : nat;
  s_issued : list (handle * nat);     (* the reference table: handle and creating archetype *)
  s_directs : list (handle * list dinfo);
  s_inexact : bool;                   (* a Clone/Drop fault fired: leaks are allowed from here on *)
  s_presets : bool;
  s_clone_armed : bool;
  s_drop_armed : bool;
}.

Definition ss0 : sstate := SS [] [] 0 [] [] false false false false.

Definition find_sent (h : handle) (l : list sent) : option sent := list_find (fun e => heqb (se_h e) h = true) l ≫= (fun x => Some (snd x)).
Definition remove_sent (h : handle) (l : list sent) : list sent := filter (fun e => heqb (se_h e) h = false) l.
Definition count_h (h : handle) (l : list handle) : nat := length (filter (fun x => heqb x h = true) l).

(* ---------------------------------------------------------------- parsing observations *)

Inductive outcome := OAcc (payload : list N) | ORej | OPanicO (p : N) | OBad.

(** One lookup-path outcome with [n] payload numbers on acceptance. *)
Definition take_outcome (n : nat) (obs : list N) : outcome * list N :=
  match obs with
  | 1%N :: r => if n <=? length r then (OAcc (take n r), drop n r) else (OBad, [])
  | 0%N :: r => (ORej, r)
  | 2%N :: p :: r => (OPanicO p, r)
  | _ => (OBad, [])
  end.

Fixpoint take_outcomes (shape : list nat) (obs : list N) : option (list outcome) :=
  match shape with
  | [] => match obs with [] => Some [] | _ => None end
  | n :: sr =>
      match take_outcome n obs with
      | (OBad, _) => None
      | (o, r) => (fun os => o :: os) <$> take_outcomes sr r
      end
  end.

Definition clean_panic (p : N) : bool := N.eqb p 5 || N.eqb p 6.   (* debug assertion; "invalid entity type" *)

(* ---------------------------------------------------------------- declarative query matching (C05) *)

(** What each parameter shows: a component column (with mutability), the entity, or a direct handle. *)
Definition spec_access (d : wdecl) (a : darch) (p : qparam) : option access :=
  match p_type p with
  | PComp c => (fun i => ACol i (p_mut p) (is_zst d c)) <$> index_of c (arch_comps a)
  | POneOf cs =>
      match filter (fun c => contains_component a c = true) cs with
      | [c] => (fun i => ACol i (p_mut p) (is_zst d c)) <$> index_of c (arch_comps a)
      | _ => None
      end
  | PEnt _ | PEntWild | PEntAny => Some AEnt
  | PDir _ | PDirWild | PDirAny => Some ADir
  end.

(** Decode one visit record [aid; params..]: the entity (if the query has an entity parameter),
    the direct handles, and the (column, value, mutable) triples it shows. *)
Fixpoint decode_record (acc : list access) (r : list N)
  : option (option handle * list handle * list (nat * N * bool * bool)) :=
  match acc with
  | [] => match r with [] => Some (None, [], []) | _ => None end
  | ACol c m z :: ar =>
      match r with
      | v :: rr => (fun '(e, ds, cs) => (e, ds, (c, v, m, z) :: cs)) <$> decode_record ar rr
      | _ => None
      end
  | AEnt :: ar =>
      match r with
      | k :: v :: rr => (fun '(e, ds, cs) => (Some (k, v), ds, cs)) <$> decode_record ar rr
      | _ => None
      end
  | ADir :: ar =>
      match r with
      | k :: v :: rr => (fun '(e, ds, cs) => (e, (k, v) :: ds, cs)) <$> decode_record ar rr
      | _ => None
      end
  end.

(** Split the concatenated, length-prefixed visit records. *)
Fixpoint split_records (fuel : nat) (obs : list N) : option (list (list N)) :=
  match fuel with
  | 0 => match obs with [] => Some [] | _ => None end
  | S f =>
      match obs with
      | [] => Some []
      | n :: r => let k := N.to_nat n in
                  if k <=? length r then (fun rs => take k r :: rs) <$> split_records f (drop k r) else None
      end
  end.

(* ---------------------------------------------------------------- state helpers *)

Definition cur_sworld (st : sstate) : option sworld := mjoin (s_worlds st !! s_cur st).

Definition set_sworld (st : sstate) (w : sworld) : sstate :=
  SS (<[s_cur st := Some w]> (s_worlds st)) (s_wissued st) (s_cur st) (s_issued st) (s_directs st)
     (s_inexact st) (s_presets st) (s_clone_armed st) (s_drop_armed st).

Definition set_sarch (st : sstate) (w : sworld) (a : nat) (x : sarch) : sstate := set_sworld st (<[a := x]> w).

Definition with_live (x : sarch) (l : list sent) : sarch :=
  SA l (sa_cap x) (sa_cap_exact x) (sa_rem x) (sa_cre x) (sa_created x) (sa_destroyed x) (sa_synced x) (sa_evok x).

(** Remove an entity (by handle) from an archetype: one more removal, logged. *)
Definition sarch_remove (x : sarch) (h : handle) : sarch :=
  SA (remove_sent h (sa_live x)) (sa_cap x) (sa_cap_exact x) (S (sa_rem x)) (sa_cre x)
     (sa_created x) (sa_destroyed x ++ [h]) (sa_synced x) (sa_evok x).

(** A removal of an entity the trace does not identify. *)
Definition sarch_remove_unknown (x : sarch) : sarch :=
  SA (sa_live x) (sa_cap x) (sa_cap_exact x) (S (sa_rem x)) (sa_cre x) (sa_created x) (sa_destroyed x) false (sa_evok x).

Definition sarch_add (x : sarch) (h : handle) (vs : list val) : sarch :=
  let grown := negb (length (sa_live x) <? sa_cap x) in
  SA (sa_live x ++ [SE h vs]) (sa_cap x) (sa_cap_exact x && negb grown) (sa_rem x) (S (sa_cre x))
     (sa_created x ++ [h]) (sa_destroyed x) (sa_synced x) (sa_evok x).

Definition set_val (x : sarch) (h : handle) (col : nat) (v : N) : sarch :=
  with_live x ((fun e => if heqb (se_h e) h then SE (se_h e) (<[col := v]> (se_vals e)) else e) <$> sa_live x).

Definition add_direct (st : sstate) (d : handle) (infos : list dinfo) : sstate :=
  SS (s_worlds st) (s_wissued st) (s_cur st) (s_issued st) (s_directs st ++ [(d, infos)])
     (s_inexact st) (s_presets st) (s_clone_armed st) (s_drop_armed st).

Definition mk_dinfo (st : sstate) (w : sworld) (a : nat) (e : option handle) : list dinfo :=
  match w !! a with
  | Some x => [DI (s_cur st) a e (sa_rem x) (sa_cre x)]
  | None => []
  end.

Definition dinfo_here (st : sstate) (infos : list dinfo) : option dinfo :=
  snd <$> list_find (fun i => di_world i = s_cur st) infos.

(** Status of a direct handle used in the current world. *)
Inductive dstatus := DMust (e : option handle) | DMay (e : option handle) | DMustNot | DUnknown.

Definition direct_status (cfg : config) (st : sstate) (w : sworld) (infos : list dinfo) : dstatus :=
  match dinfo_here st infos with
  | None => DUnknown
  | Some i =>
      match w !! di_arch i with
      | None => DUnknown
      | Some x =>
          if negb (sa_rem x =? di_rem i) then (if wrapping cfg && s_presets st then DUnknown else DMustNot)
          else if sa_cre x =? di_cre i then DMust (di_ent i) else DMay (di_ent i)
      end
  end.

Definition fail (p r : N) : failure + sstate := inl (p, r).

(* ---------------------------------------------------------------- lookups: what a key must do *)

(** Expectation for an entity-kind key presented with typing [t] at level [l]:
    [inl obs] = the conversion itself must yield exactly [obs];
    [inr (None)] = the known class "typed handle whose packed id differs from its static archetype"
                   (recorded finding F3): only memory safety is required;
    [inr (Some (target archetype or none, must_panic_unknown_id))]. *)
Inductive expect :=
  | EExact (obs : list N)
  | ESkip
  | ETarget (a : nat)            (* the archetype that has to decide *)
  | ENoArch                      (* world-level dynamic key naming no archetype: clean panic or absence *)
  | EAbsent.                     (* archetype-level dynamic key of another archetype: absence *)

Definition expect_key (cfg : config) (d : wdecl) (k : kind) (t : ty) (l : lvl) (h : handle) : expect :=
  let idof := match k with KEnt => key_arch_id (fst h) | KDir => dkey_arch_id (fst h) end in
  if (match k with KEnt => N.eqb (snd h) 0 | KDir => false end) then EExact [5%N]
  else
    let by_id := find_arch (wd_archs d) idof in
    match t with
    | TAny =>
        match l with
        | LWorld => match by_id with Some a => ETarget a | None => ENoArch end
        | LArch b => match wd_archs d !! b with
                     | Some bd => if N.eqb (da_id bd) idof then ETarget b else EAbsent
                     | None => EExact [8%N]
                     end
        end
    | TChecked a =>
        match wd_archs d !! a with
        | Some ad => if N.eqb (da_id ad) idof then
                       (match l with LArch b => if Nat.eqb a b then ETarget a else EExact [6%N] | LWorld => ETarget a end)
                     else EExact [3%N]
        | None => EExact [8%N]
        end
    | TUnchecked a | TMut a =>
        match wd_archs d !! a with
        | Some ad =>
            if N.eqb (da_id ad) idof then
              (match l with LArch b => if Nat.eqb a b then ETarget a else EExact [6%N] | LWorld => ETarget a end)
            else (match t with
                  | TUnchecked _ => if debug cfg then EExact [2%N; 5%N] else ESkip
                  | _ => ESkip
                  end)
        | None => EExact [8%N]
        end
    end.

Definition probe_shape (l : lvl) (typed : bool) (nc : nat) : list nat :=
  match l with
  | LWorld => if typed then [0; 2; 3 + nc; 3 + nc; 4; 4] else [0; 2; 4; 4]
  | LArch _ => [0; 1; 2; 3 + nc; 3 + nc]
  end.

(** Which payloads of a probe show (stored handle, values): positions and offsets. *)
Definition check_acc_payload (prop : N) (l : lvl) (typed : bool) (idx : nat) (pl : list N)
           (h : option handle) (vals : option (list val)) (aid : N) : option failure :=
  let is_view := match l with LWorld => typed && ((idx =? 2) || (idx =? 3)) | LArch _ => (idx =? 3) || (idx =? 4) end in
  let is_find := match l with LWorld => if typed then (idx =? 4) || (idx =? 5) else (idx =? 2) || (idx =? 3) | LArch _ => false end in
  let is_dir := idx =? (match l with LWorld => 1 | LArch _ => 2 end) in
  if is_view then
    match pl with
    | _ :: ek :: ev :: vs =>
        if (match h with Some h => negb (heqb (ek, ev) h) | None => false end) then Some (prop, 11%N)       (* designates another entity *)
        else if (match vals with Some v => negb (lNeqb vs v) | None => false end) then Some (2%N, 12%N)  (* not its own latest values *)
        else None
    | _ => Some (prop, 13%N)
    end
  else if is_find then
    match pl with
    | ek :: ev :: dk :: _ =>
        if (match h with Some h => negb (heqb (ek, ev) h) | None => false end) then Some (prop, 14%N)
        else if negb (N.eqb (dkey_arch_id dk) aid) then Some (14%N, 15%N)
        else None
    | _ => Some (prop, 13%N)
    end
  else if is_dir then
    match pl with
    | dk :: _ => if negb (N.eqb (dkey_arch_id dk) aid) then Some (14%N, 15%N) else None
    | _ => Some (prop, 13%N)
    end
  else None.

(** All paths of a probe must agree with [must]: Some true = accept, Some false = reject (or clean panic). *)
Fixpoint check_paths (prop : N) (l : lvl) (typed : bool) (idx : nat) (os : list outcome) (must : option bool)
         (h : option handle) (vals : option (list val)) (aid : N) : option failure :=
  match os with
  | [] => None
  | o :: r =>
      let here :=
        match o, must with
        | OAcc pl, Some false => Some (prop, 1%N)                         (* accepted but must not be *)
        | OAcc pl, _ => check_acc_payload prop l typed idx pl h vals aid
        | ORej, Some true => Some (prop, 2%N)                             (* rejected but must be accepted *)
        | OPanicO p, Some true => Some (prop, 3%N)
        | OPanicO p, _ => if clean_panic p then None else Some (10%N, 4%N)
        | _, _ => None
        end in
      match here with
      | Some f => Some f
      | None => check_paths prop l typed (S idx) r must h vals aid
      end
  end.

(** All paths give the same verdict (no path accepts what another rejects). *)
Definition paths_consistent (os : list outcome) : bool :=
  let accs := filter (fun o => match o with OAcc _ => true | _ => false end = true) os in
  (length accs =? 0) || (length accs =? length os).

Definition is_stop_decision (x : decision) : bool := match x with DBreak | DBreakDestroy | DClosurePanic => true | _ => false end.

(* ---------------------------------------------------------------- the step *)

Definition row_vals (d : wdecl) (a : darch) (v : N) : list val := row_values d a v.

Definition ncols_of (d : wdecl) (a : nat) : nat := match wd_archs d !! a with Some ad => length (da_comps ad) | None => 0 end.
Definition aid_of (d : wdecl) (a : nat) : N := match wd_archs d !! a with Some ad => da_id ad | None => 0%N end.

Definition multiset_eq (a b : list (list N)) : bool :=
  (length a =? length b) && forallb (fun x => length (filter (fun y => lNeqb x y = true) a) =? length (filter (fun y => lNeqb x y = true) b)) a.

Definition sent_row (e : sent) : list N := o_handle (se_h e) ++ se_vals e.

Fixpoint chunk (n : nat) (fuel : nat) (l : list N) : list (list N) :=
  match fuel with
  | 0 => []
  | S f => match l with [] => [] | _ => take n l :: chunk n f (drop n l) end
  end.

Definition live_expected (d : wdecl) (st : sstate) : N * N :=
  fold_right (fun ow acc => match ow with
     | Some w => fold_right (fun '(ad, x) acc2 =>
                    (fst acc2 + N.of_nat (length (sa_live x)) * nz_cols d ad, snd acc2 + N.of_nat (length (sa_live x)) * z_cols d ad)%N)
                    acc (zip (wd_archs d) w)
     | None => acc end) (0, 0)%N (s_worlds st).


(** C14, conversions per declared archetype: the observation lists, for each archetype in declaration
    order, the outcome of the checked conversion into that archetype's handle type. *)
Fixpoint conv_arch_laws (archs : list darch) (key ver aid : N) (rest : list N) : option (list N) :=
  match archs with
  | [] => Some rest
  | a :: ar =>
      if N.eqb (da_id a) aid then
        match rest with
        | 1%N :: k :: v :: id :: r =>
            if N.eqb k key && N.eqb v ver && N.eqb id (da_id a) then conv_arch_laws ar key ver aid r else None
        | _ => None
        end
      else match rest with 0%N :: r => conv_arch_laws ar key ver aid r | _ => None end
  end.

Fixpoint conv_find (archs : list darch) (aid : N) (i : N) : option (N * N) :=
  match archs with
  | [] => None
  | a :: ar => if N.eqb (da_id a) aid then Some (i, da_id a) else conv_find ar aid (i + 1)%N
  end.

Definition spec_step (cfg : config) (d : wdecl) (qs : list (list qparam)) (st : sstate) (o : op) (obs : list N)
  : failure + sstate :=
  let archs := wd_archs d in
  match o with
  | ONew caps =>
      match obs with
      | [1%N; i] =>
          inr (SS (s_worlds st ++ [Some ((fun c => SA [] c true 0 0 [] [] true true) <$> caps)]) (s_wissued st ++ [[]])
                  (N.to_nat i) (s_issued st) (s_directs st) (s_inexact st) (s_presets st) (s_clone_armed st) (s_drop_armed st))
      | [2%N; 2%N] => if existsb (fun c => N.ltb MAX_DATA_CAPACITY (N.of_nat c)) caps then inr st else fail 12 1
      | _ => fail 12 2
      end
  | OSwitch i =>
      match obs with
      | [1%N] => inr (SS (s_worlds st) (s_wissued st) i (s_issued st) (s_directs st) (s_inexact st) (s_presets st) (s_clone_armed st) (s_drop_armed st))
      | _ => inr st
      end
  | ODrop i =>
      match obs with
      | [1%N] | [2%N; 11%N] =>
          inr (SS (<[i := None]> (s_worlds st)) (s_wissued st) (s_cur st) (s_issued st) (s_directs st)
                  (s_inexact st || negb (lNeqb obs [1%N])) (s_presets st) (s_clone_armed st) false)
      | [0%N] => inr st
      | _ => fail 10 5
      end
  | OFault f n =>
      inr (SS (s_worlds st) (s_wissued st) (s_cur st) (s_issued st) (s_directs st) (s_inexact st) (s_presets st)
              (match f with FClone => negb (N.eqb n 0) | _ => s_clone_armed st end)
              (match f with FDrop => negb (N.eqb n 0) | _ => s_drop_armed st end))
  | OReg =>
      match obs with
      | [lv; dd; uad; zl] =>
          let '(t, z) := live_expected d st in
          if negb (N.eqb dd 0) then fail 4 1            (* a value was dropped twice *)
          else if negb (N.eqb uad 0) then fail 4 2      (* a dropped value was read *)
          else if s_inexact st then (if N.ltb lv t || N.ltb zl z then fail 4 3 else inr st)
          else if negb (N.eqb lv t) || negb (N.eqb zl z) then fail 4 (if N.ltb lv t then 3 else 4)   (* dropped early / leaked *)
          else inr st
      | _ => fail 4 5
      end
  | OConv k r =>
      (* conversions: checked against the declarative reading of C14 *)
      match k, r, obs with
      | KEnt, RRaw key ver, [5%N] => if N.eqb ver 0 then inr st else fail 14 1
      | KEnt, RRaw key ver, 1%N :: k2 :: v2 :: aid :: rest =>
          if N.eqb ver 0 then fail 14 1
          else if negb (N.eqb k2 key && N.eqb v2 ver) then fail 14 2
          else if negb (N.eqb aid (key mod 256)) then fail 14 3
          else
            (* into_any / try_from per declared archetype: succeeds exactly for the archetype whose id
               the handle carries, returning the same raw pair and that id *)
            match conv_arch_laws archs key ver aid rest with
            | None => fail 14 4
            | Some rest1 =>
                (* Select* enums: the first archetype with that id, the handle unchanged, and
                   SelectArchetype::archetype_id() reporting the declared id *)
                let sel := conv_find archs aid 0 in
                match sel, rest1 with
                | Some (a, id), a1 :: k3 :: v3 :: a2 :: id2 :: a3 :: _ =>
                    if negb (N.eqb a1 a && N.eqb k3 key && N.eqb v3 ver) then fail 14 5
                    else if negb (N.eqb a2 a && N.eqb id2 id) then fail 14 6
                    else if negb (N.eqb a3 a) then fail 14 7
                    else inr st
                | None, 255%N :: 255%N :: 255%N :: _ => inr st
                | _, _ => fail 14 8
                end
            end
      | KDir, RRaw key ver, 1%N :: k2 :: v2 :: aid :: rest =>
          if negb (N.eqb k2 key && N.eqb v2 ver) then fail 14 2
          else if negb (N.eqb aid (key mod 256)) then fail 14 3
          else
            match conv_arch_laws archs key ver aid rest with
            | None => fail 14 4
            | Some rest1 =>
                match conv_find archs aid 0, rest1 with
                | Some (a, id), a1 :: k3 :: v3 :: _ => if negb (N.eqb a1 a && N.eqb k3 key && N.eqb v3 ver) then fail 14 5 else inr st
                | None, 255%N :: _ => inr st
                | _, _ => fail 14 8
                end
            end
      | _, _, _ => inr st
      end
  | _ =>
  match cur_sworld st with
  | None => inr st
  | Some w =>
  match o with
  | OClone =>
      match obs with
      | [1%N; i] =>
          let wi := default [] (s_wissued st !! s_cur st) in
          let dup := (fun '(dh, infos) => (dh, infos ++ ((fun x => DI (N.to_nat i) (di_arch x) (di_ent x) (di_rem x) (di_cre x)) <$> filter (fun x => di_world x = s_cur st) infos))) <$> s_directs st in
          inr (SS (s_worlds st ++ [Some w]) (s_wissued st ++ [wi]) (s_cur st) (s_issued st) dup
                  (s_inexact st) (s_presets st) false (s_drop_armed st))
      | [2%N; 10%N] => if s_clone_armed st then
                         inr (SS (s_worlds st) (s_wissued st) (s_cur st) (s_issued st) (s_directs st) true (s_presets st) false (s_drop_armed st))
                       else fail 13 1
      | _ => fail 13 2
      end
  | OCreate a v | OCreateW a v =>
      match archs !! a, w !! a with
      | Some ad, Some x =>
          let vs := row_vals d ad v in
          let within := match o with OCreateW _ _ => true | _ => false end in
          match obs with
          | [1%N; key; ver] =>
              let h := (key, ver) in
              let wi := default [] (s_wissued st !! s_cur st) in
              if negb (N.eqb (key_arch_id key) (da_id ad)) then fail 14 4
              else if negb (wrapping cfg && s_presets st) && (0 <? count_h h wi) then fail 8 1     (* handle issued twice *)
              else if within && sa_cap_exact x && negb (length (sa_live x) <? sa_cap x) then fail 12 3  (* succeeded at capacity *)
              else
                let st1 := set_sarch st w a (sarch_add x h vs) in
                inr (SS (s_worlds st1) (<[s_cur st := wi ++ [h]]> (s_wissued st1)) (s_cur st1) (s_issued st1 ++ [(h, a)]) (s_directs st1)
                        (s_inexact st1) (s_presets st1) (s_clone_armed st1) (s_drop_armed st1))
          | 4%N :: back =>
              if negb within then fail 12 4
              else if sa_cap_exact x && (length (sa_live x) <? sa_cap x) then fail 12 5            (* refused below capacity *)
              else if negb (lNeqb back vs) then fail 12 6                                          (* did not return its argument *)
              else inr st
          | [2%N; 11%N] => if s_drop_armed st then inr st else fail 10 6
          | [2%N; 1%N] => if N.ltb (N.of_nat (length (sa_live x))) MAX_DATA_CAPACITY then fail 12 7 else inr st
          | _ => fail 12 8
          end
      | _, _ => inr st
      end
  | OProbe l k t r | ODestroy l k t r | OToDirect l k t r =>
      let is_probe := match o with OProbe _ _ _ _ => true | _ => false end in
      let is_destroy := match o with ODestroy _ _ _ _ => true | _ => false end in
      match k, r with
      | KEnt, (RIssued _ | RRaw _ _) =>
          let oh := match r with
                    | RIssued i => fst <$> s_issued st !! i
                    | RRaw key ver => Some (key, ver)
                    | _ => None end in
          match oh with
          | None => inr st
          | Some h =>
              let issued_here := 0 <? count_h h (default [] (s_wissued st !! s_cur st)) in
              let prop := if issued_here then 1%N else 3%N in
              match expect_key cfg d k t l h with
              | EExact e => if lNeqb obs e then inr st else fail prop 20
              | ESkip =>
                  (* known class F3 (typed handle whose packed id is another archetype's): only memory
                     safety is required; a successful destroy removed an entity the trace does not identify *)
                  match t, obs with
                  | (TUnchecked a | TMut a), 1%N :: rest =>
                      if is_destroy then match w !! a with Some x => inr (set_sarch st w a (sarch_remove_unknown x)) | None => inr st end
                      else if is_probe then inr st
                      else match rest with [dk; dv] => inr (add_direct st (dk, dv) []) | _ => inr st end   (* to_direct: the handle table grows *)
                  | _, _ => inr st
                  end
              | EAbsent =>
                  if is_probe then (if forallb (N.eqb 0) obs then inr st else fail prop 21)
                  else if lNeqb obs [0%N] then inr st else fail prop 21
              | ENoArch =>
                  if is_probe then
                    match take_outcomes (probe_shape l false 0) obs with
                    | Some os => match check_paths prop l false 0 os (Some false) None None 0%N with Some f => inl f | None => inr st end
                    | None => fail prop 22
                    end
                  else match obs with [0%N] | [2%N; 6%N] => inr st | _ => fail prop 22 end
              | ETarget a =>
                  match w !! a with
                  | None => inr st
                  | Some x =>
                      let typed := match t with TAny => false | _ => true end in
                      let se := find_sent h (sa_live x) in
                      let must := if sa_synced x then Some (bool_decide (is_Some se)) else (if bool_decide (is_Some se) then None else Some false) in
                      if is_probe then
                        match take_outcomes (probe_shape l typed (ncols_of d a)) obs with
                        | None => fail prop 23
                        | Some os =>
                            match check_paths prop l typed 0 os must (Some h) (se_vals <$> se) (aid_of d a) with
                            | Some f => inl f
                            | None => if paths_consistent os then inr st else fail prop 24
                            end
                        end
                      else if is_destroy then
                        match obs with
                        | 1%N :: vals =>
                            match se with
                            | None => fail prop 1                        (* destroyed through a handle that designates nothing *)
                            | Some e =>
                                let returns_vals := negb (match l, t with LWorld, TAny => true | _, _ => false end) in
                                if returns_vals && negb (lNeqb vals (se_vals e)) then fail 2 30
                                else inr (set_sarch st w a (sarch_remove x h))
                            end
                        | [0%N] => match must with Some true => fail prop 2 | _ => inr st end
                        | [2%N; 11%N] =>
                            (* the values were dropped by a panicking Drop after the removal completed *)
                            if s_drop_armed st then
                              (match se with Some _ => inr (set_sarch (SS (s_worlds st) (s_wissued st) (s_cur st) (s_issued st) (s_directs st) (s_inexact st) (s_presets st) (s_clone_armed st) false) w a (sarch_remove x h))
                                           | None => fail prop 1 end)
                            else fail 10 6
                        | [2%N; p] =>
                            if N.eqb p 3 || N.eqb p 4 then
                              (* documented generation overflow: the entity must still be fully present *)
                              (if wrapping cfg then fail 19 1 else inr st)
                            else if clean_panic p then (match must with Some true => fail prop 3 | _ => inr st end)
                            else fail 10 4
                        | _ => fail prop 25
                        end
                      else
                        match obs with
                        | [1%N; dk; dv] =>
                            match must with
                            | Some false => fail prop 1
                            | _ => if negb (N.eqb (dkey_arch_id dk) (aid_of d a)) then fail 14 15
                                   else inr (add_direct st (dk, dv) (mk_dinfo st w a (Some h)))
                            end
                        | [0%N] => match must with Some true => fail prop 2 | _ => inr st end
                        | [2%N; p] => if clean_panic p then (match must with Some true => fail prop 3 | _ => inr st end) else fail 10 4
                        | _ => fail prop 25
                        end
                  end
              end
          end
      | KDir, RDirect i =>
          match s_directs st !! i with
          | None => inr st
          | Some (dh, infos) =>
              match expect_key cfg d k t l dh with
              | EExact e => if lNeqb obs e then inr st else fail 9 20
              | ESkip =>
                  match t, obs with
                  | (TUnchecked a | TMut a), 1%N :: rest =>
                      if is_destroy then match w !! a with Some x => inr (set_sarch st w a (sarch_remove_unknown x)) | None => inr st end
                      else if is_probe then inr st
                      else match rest with [dk; dv] => inr (add_direct st (dk, dv) []) | _ => inr st end   (* to_direct: the handle table grows *)
                  | _, _ => inr st
                  end
              | EAbsent =>
                  if is_probe then (if forallb (N.eqb 0) obs then inr st else fail 9 21)
                  else if lNeqb obs [0%N] then inr st else fail 9 21
              | ENoArch =>
                  if is_probe then
                    match take_outcomes (probe_shape l false 0) obs with
                    | Some os => match check_paths 3 l false 0 os (Some false) None None 0%N with Some f => inl f | None => inr st end
                    | None => fail 9 22
                    end
                  else match obs with [0%N] | [2%N; 6%N] => inr st | _ => fail 9 22 end
              | ETarget a =>
                  match w !! a with
                  | None => inr st
                  | Some x =>
                      let typed := match t with TAny => false | _ => true end in
                      let status := direct_status cfg st w infos in
                      let status := match status with
                                    | DMust e | DMay e => match dinfo_here st infos with
                                                          | Some i => if di_arch i =? a then status else DUnknown
                                                          | None => DUnknown end
                                    | s => s end in
                      let ent := match status with DMust e | DMay e => e | _ => None end in
                      let se := ent ≫= (fun e => find_sent e (sa_live x)) in
                      let must := match status with DMust _ => Some true | DMustNot => Some false | _ => None end in
                      let must := if sa_synced x then must else (match must with Some true => None | m => m end) in
                      if is_probe then
                        match take_outcomes (probe_shape l typed (ncols_of d a)) obs with
                        | None => fail 9 23
                        | Some os =>
                            (* to_direct of a direct key is one of the lookup paths: it takes part in the verdict *)
                            match check_paths 9 l typed 0 os must ent (se_vals <$> se) (aid_of d a) with
                            | Some f => inl f
                            | None => if paths_consistent os then inr st else fail 9 24
                            end
                        end
                      else if is_destroy then
                        match obs with
                        | 1%N :: vals =>
                            match must with
                            | Some false => fail 9 1
                            | _ =>
                                match ent, se with
                                | Some e, Some s0 =>
                                    let returns_vals := negb (match l, t with LWorld, TAny => true | _, _ => false end) in
                                    if returns_vals && negb (lNeqb vals (se_vals s0)) then fail 9 11
                                    else inr (set_sarch st w a (sarch_remove x e))
                                | Some e, None => if sa_synced x then fail 9 11 else inr (set_sarch st w a (sarch_remove_unknown x))
                                | None, _ => inr (set_sarch st w a (sarch_remove_unknown x))
                                end
                            end
                        | [0%N] => match must with Some true => fail 9 2 | _ => inr st end
                        | [2%N; 11%N] =>
                            if s_drop_armed st then
                              let st' := SS (s_worlds st) (s_wissued st) (s_cur st) (s_issued st) (s_directs st) (s_inexact st) (s_presets st) (s_clone_armed st) false in
                              match ent, se with
                              | Some e, Some _ => inr (set_sarch st' w a (sarch_remove x e))
                              | _, _ => inr (set_sarch st' w a (sarch_remove_unknown x))
                              end
                            else fail 10 6
                        | [2%N; p] =>
                            if N.eqb p 3 || N.eqb p 4 then (if wrapping cfg then fail 19 1 else inr st)
                            else if clean_panic p then (match must with Some true => fail 9 3 | _ => inr st end)
                            else fail 10 4
                        | _ => fail 9 25
                        end
                      else
                        match obs with
                        | [1%N; dk; dv] =>
                            match must with
                            | Some false => fail 9 1      (* to_direct accepted a direct handle that must be rejected *)
                            | _ => inr (add_direct st (dk, dv) (mk_dinfo st w a ent))
                            end
                        | [0%N] => match must with Some true => fail 9 2 | _ => inr st end
                        | [2%N; p] => if clean_panic p then (match must with Some true => fail 9 3 | _ => inr st end) else fail 10 4
                        | _ => fail 9 25
                        end
                  end
              end
          end
      | _, _ => inr st
      end
  | OWrite p b k t r c v =>
      match k, r with
      | KEnt, RIssued i =>
          match s_issued st !! i with
          | Some (h, a) =>
              match obs, archs !! a, w !! a with
              | [1%N], Some ad, Some x =>
                  match find_sent h (sa_live x), index_of c (arch_comps ad) with
                  | Some _, Some col => if is_zst d c then inr st else inr (set_sarch st w a (set_val x h col v))
                  | None, _ => if sa_synced x then fail 1 1 else inr st
                  | _, None => fail 5 1
                  end
              | [0%N], _, Some x =>
                  (* absent, or the (find-based) query does not match the archetype *)
                  inr st
              | _, _, _ => inr st
              end
          | None => inr st
          end
      | _, _ => inr st
      end
  | OFind q borrow k t r delta =>
      match qs !! q with
      | None => inr st
      | Some ps =>
          let oh := match k, r with
                    | KEnt, RIssued i => fst <$> s_issued st !! i
                    | KEnt, RRaw key ver => Some (key, ver)
                    | _, _ => None end in
          (* known class F3: the key reaches an entity of its static archetype, not the one it names *)
          let skipF3 := match oh with
                        | Some h => match expect_key cfg d k t LWorld h with ESkip => true | _ => false end
                        | None => false end in
          match obs with
          | 1%N :: aid :: rec =>
              match find_arch archs aid with
              | None => fail 5 2
              | Some a =>
                  match archs !! a, w !! a with
                  | Some ad, Some x =>
                      if negb (sat ad ps) then fail 5 3                       (* the closure ran on an archetype the query does not match *)
                      else
                        match mapM (spec_access d ad) ps ≫= (fun acc => decode_record acc rec) with
                        | None => fail 5 4
                        | Some (e, ds, cs) =>
                            let ent := match e with Some e => Some e | None => if skipF3 then None else oh end in
                            match ent ≫= (fun e => find_sent e (sa_live x)) with
                            | None => if sa_synced x && bool_decide (is_Some ent) then fail (match k with KEnt => 1 | KDir => 9 end)%N 1 else
                                      inr (fold_left (fun s dh => add_direct s dh (mk_dinfo s w a ent)) ds st)
                            | Some s0 =>
                                if negb skipF3 && (match oh with Some h => negb (heqb h (se_h s0)) | None => false end) then fail 1 11
                                else if negb (forallb (fun '(col, v, m, z) => z || bool_decide (se_vals s0 !! col = Some v)) cs) then fail 2 12
                                else
                                  let x' := fold_left (fun x '(col, v, m, z) => if m && negb z && negb (N.eqb delta 0) then set_val x (se_h s0) col (v + delta)%N else x) cs x in
                                  let st1 := set_sarch st w a x' in
                                  inr (fold_left (fun s dh => add_direct s dh (mk_dinfo s w a (Some (se_h s0)))) ds st1)
                            end
                        end
                  | _, _ => inr st
                  end
              end
          | [0%N] =>
              (* None: the entity is absent, or its archetype is not matched *)
              match oh with
              | Some h =>
                  match find_arch archs (key_arch_id (fst h)) with
                  | Some a => match archs !! a, w !! a with
                              | Some ad, Some x =>
                                  if sat ad ps && sa_synced x && bool_decide (is_Some (find_sent h (sa_live x)))
                                     && (match t with TAny | TChecked _ => true | _ => false end)
                                  then fail 5 5 else inr st
                              | _, _ => inr st end
                  | None => inr st
                  end
              | None => inr st
              end
          | _ => inr st
          end
      end
  | OReadAll p a =>
      match w !! a, obs with
      | Some x, n :: rows =>
          let nc := ncols_of d a in
          let rs := chunk (2 + nc) (S (length rows)) rows in
          if negb (N.to_nat n =? length rs) || negb (length rows =? N.to_nat n * (2 + nc)) then fail 6 1
          else if sa_synced x then
            (if negb (N.to_nat n =? length (sa_live x)) then fail 6 2          (* item count differs from the live count *)
             else if multiset_eq rs (sent_row <$> sa_live x) then inr st else fail 6 3)
          else
            (* resynchronise after a removal the trace did not identify: the rows must be old entities *)
            if negb (forallb (fun r => existsb (fun e => lNeqb (sent_row e) r) (sa_live x)) rs) then fail 6 4
            else
              (* the entities that disappeared are the ones the unidentified removals destroyed: log them now *)
              let gone := se_h <$> filter (fun e => existsb (fun r => lNeqb (sent_row e) r) rs = false) (sa_live x) in
              inr (set_sarch st w a (SA ((fun r => SE (default 0%N (r !! 0), default 0%N (r !! 1)) (drop 2 r)) <$> rs)
                                        (sa_cap x) (sa_cap_exact x) (sa_rem x) (sa_cre x) (sa_created x) (sa_destroyed x ++ gone) true (sa_evok x)))
      | _, _ => inr st
      end
  | OIter q borrow break_at panic_at delta =>
      match qs !! q, obs with
      | Some ps, tag :: rest =>
          let body := if N.eqb tag 1 then Some rest else match rest with _ :: r => Some r | [] => None end in
          match body with
          | Some (n :: recs) =>
              match split_records (S (length recs)) recs with
              | None => fail 6 5
              | Some rs =>
                  let matched_total := fold_right (fun '(ad, x) acc => if sat ad ps then acc + length (sa_live x) else acc) 0 (zip archs w) in
                  let all_synced := forallb (fun '(ad, x) => negb (sat ad ps) || sa_synced x) (zip archs w) in
                  let complete := match break_at, panic_at with
                                  | None, None => true
                                  | Some b, None => negb (b <? matched_total)
                                  | None, Some b => negb (b <? matched_total)
                                  | Some b, Some c => negb (b <? matched_total) && negb (c <? matched_total)
                                  end in
                  let expected_n := match break_at, panic_at with
                                    | None, None => matched_total
                                    | Some b, None | None, Some b => Nat.min (S b) matched_total
                                    | Some b, Some c => Nat.min (S (Nat.min b c)) matched_total
                                    end in
                  if negb (N.to_nat n =? length rs) then fail 6 5
                  else if all_synced && negb (length rs =? expected_n) then fail 6 6     (* wrong number of visits *)
                  else
                    (* every visit: a live entity of a matched archetype, not seen before in this pass, own values *)
                    (fix go (rs : list (list N)) (seen : list handle) (st : sstate) (w : sworld) : failure + sstate :=
                       match rs with
                       | [] => inr st
                       | r0 :: more =>
                               match r0 with
                               | aid :: rec =>
                                   match find_arch archs aid with
                                   | None => fail 5 2
                                   | Some a =>
                                       match archs !! a, w !! a with
                                       | Some ad, Some x =>
                                           if negb (sat ad ps) then fail 5 3
                                           else match mapM (spec_access d ad) ps ≫= (fun acc => decode_record acc rec) with
                                                | None => fail 5 4
                                                | Some (e, ds, cs) =>
                                                    match e with
                                                    | None =>
                                                        let st1 := fold_left (fun s dh => add_direct s dh (mk_dinfo s w a None)) ds st in
                                                        go more seen st1 w
                                                    | Some eh =>
                                                        if 0 <? count_h eh seen then fail 6 7       (* visited twice *)
                                                        else match find_sent eh (sa_live x) with
                                                             | None => if sa_synced x then fail 6 8 else go more (eh :: seen) st w     (* visited something that is not alive *)
                                                             | Some s0 =>
                                                                 if negb (forallb (fun '(col, v, m, z) => z || bool_decide (se_vals s0 !! col = Some v)) cs) then fail 2 12
                                                                 else
                                                                   let x' := fold_left (fun x '(col, v, m, z) => if m && negb z && negb (N.eqb delta 0) then set_val x eh col (v + delta)%N else x) cs x in
                                                                   let w' := <[a := x']> w in
                                                                   let st1 := set_sworld st w' in
                                                                   let st2 := fold_left (fun s dh => add_direct s dh (mk_dinfo s w' a (Some eh))) ds st1 in
                                                                   go more (eh :: seen) st2 w'
                                                             end
                                                    end
                                                end
                                       | _, _ => inr st
                                       end
                                   end
                               | [] => fail 6 5
                               end
                       end) rs [] st w
              end
          | _ => fail 6 5
          end
      | _, _ => inr st
      end
  | OIterD q decs =>
      match qs !! q, obs with
      | Some ps, tag :: rest =>
          let panicked := negb (N.eqb tag 1) in
          let body := if panicked then match rest with _ :: r => Some r | [] => None end else Some rest in
          let pk := if panicked then default 0%N (rest !! 0) else 0%N in
          match body with
          | Some (n :: recs) =>
              match split_records (S (length recs)) recs with
              | None => fail 7 5
              | Some rs =>
                  let matched_total := fold_right (fun '(ad, x) acc => if sat ad ps then acc + length (sa_live x) else acc) 0 (zip archs w) in
                  let all_synced := forallb (fun '(ad, x) => negb (sat ad ps) || sa_synced x) (zip archs w) in
                  (* number of closure calls: up to and including the first Break/BreakDestroy/panic decision *)
                  let stop_at := list_find (fun x => is_stop_decision x = true) (take matched_total decs) in
                  let expected_n := match stop_at with Some (i, _) => S i | None => matched_total end in
                  let drop_panic := panicked && N.eqb pk 11 in
                  if negb (N.to_nat n =? length rs) then fail 7 5
                  else if panicked && negb (N.eqb pk 9 || N.eqb pk 11 || N.eqb pk 3 || N.eqb pk 4) then fail 10 4
                  else if all_synced && negb drop_panic && negb (N.eqb pk 3 || N.eqb pk 4) && negb (length rs =? expected_n) then fail 7 6
                  else if drop_panic && negb (s_drop_armed st) then fail 10 6
                  else
                    (fix go (ord : nat) (rs : list (list N)) (seen : list handle) (st : sstate) (w : sworld) : failure + sstate :=
                       match rs with
                       | [] => inr st
                       | r0 :: more =>
                           match r0 with
                           | aid :: rec =>
                               match find_arch archs aid with
                               | None => fail 5 2
                               | Some a =>
                                   match archs !! a, w !! a with
                                   | Some ad, Some x =>
                                       if negb (sat ad ps) then fail 5 3
                                       else match mapM (spec_access d ad) ps ≫= (fun acc => decode_record acc rec) with
                                            | None => fail 5 4
                                            | Some (e, ds, cs) =>
                                                let dec := nth_decision decs ord in
                                                let destroys := match dec with DContinueDestroy | DBreakDestroy => true | _ => false end in
                                                (* an overflow panic inside the destroy leaves the entity in place *)
                                                let last := match more with [] => true | _ => false end in
                                                let destroys := destroys && negb (last && panicked && (N.eqb pk 3 || N.eqb pk 4)) in
                                                match e with
                                                | None =>
                                                    let st1 := fold_left (fun s dh => add_direct s dh (mk_dinfo s w a None)) ds st in
                                                    if destroys then
                                                      let w' := <[a := sarch_remove_unknown x]> w in go (S ord) more seen (set_sworld st1 w') w'
                                                    else go (S ord) more seen st1 w
                                                | Some eh =>
                                                    if 0 <? count_h eh seen then fail 7 7
                                                    else match find_sent eh (sa_live x) with
                                                         | None => if sa_synced x then fail 7 8
                                                                   else (if destroys then let w' := <[a := sarch_remove_unknown x]> w in go (S ord) more (eh :: seen) (set_sworld st w') w'
                                                                         else go (S ord) more (eh :: seen) st w)
                                                         | Some s0 =>
                                                             if negb (forallb (fun '(col, v, m, z) => z || bool_decide (se_vals s0 !! col = Some v)) cs) then fail 2 12
                                                             else
                                                               (* the direct handle handed to the closure designates the visited entity, now *)
                                                               let st1 := fold_left (fun s dh => add_direct s dh (mk_dinfo s w a (Some eh))) ds st in
                                                               if destroys then
                                                                 let w' := <[a := sarch_remove x eh]> w in go (S ord) more (eh :: seen) (set_sworld st1 w') w'
                                                               else go (S ord) more (eh :: seen) st1 w
                                                         end
                                                end
                                            end
                                   | _, _ => inr st
                                   end
                               end
                           | [] => fail 7 5
                           end
                       end) 0 rs [] (if drop_panic then SS (s_worlds st) (s_wissued st) (s_cur st) (s_issued st) (s_directs st) (s_inexact st) (s_presets st) (s_clone_armed st) false else st) w
              end
          | _ => fail 7 5
          end
      | _, _ => inr st
      end
  | OLen a =>
      match w !! a, obs with
      | Some x, [ln; cp; emp; ver; ln2; cp2] =>
          if negb (N.eqb ln ln2 && N.eqb cp cp2) then fail 12 9
          else if sa_synced x && negb (N.to_nat ln =? length (sa_live x)) then fail 12 10          (* len() is not the number of live entities *)
          else if negb (N.eqb emp (if N.eqb ln 0 then 1 else 0)) then fail 12 11
          else if N.ltb cp ln then fail 12 12
          else if N.to_nat cp <? sa_cap x then fail 12 13                                           (* capacity decreased *)
          else if sa_cap_exact x && negb (N.to_nat cp =? sa_cap x) then fail 12 14                  (* capacity changed without need *)
          else inr (set_sarch st w a (SA (sa_live x) (N.to_nat cp) true (sa_rem x) (sa_cre x) (sa_created x) (sa_destroyed x) (sa_synced x) (sa_evok x)))
      | _, _ => inr st
      end
  | ODump a => inr st
  | OPreset a sv av =>
      inr (SS (s_worlds st) (s_wissued st) (s_cur st) (s_issued st) (s_directs st) (s_inexact st) true (s_clone_armed st) (s_drop_armed st))
  | OEvents l =>
      if negb (events cfg) then inr st
      else match l with
           | LArch a =>
               match w !! a with
               | Some x =>
                   let exp := N.of_nat (length (sa_created x)) :: concat (o_handle <$> sa_created x)
                              ++ N.of_nat (length (sa_destroyed x)) :: concat (o_handle <$> sa_destroyed x) in
                   if negb (sa_synced x && sa_evok x) then inr st
                   else if lNeqb obs exp then inr st
                   else
                     (* order inside a log is not part of the property: compare as multisets *)
                     match obs with
                     | nc :: r =>
                         let cs := chunk 2 (S (length r)) (take (2 * N.to_nat nc) r) in
                         match drop (2 * N.to_nat nc) r with
                         | nd :: r2 =>
                             let ds := chunk 2 (S (length r2)) r2 in
                             if multiset_eq cs (o_handle <$> sa_created x) && multiset_eq ds (o_handle <$> sa_destroyed x)
                                && (length r2 =? 2 * N.to_nat nd) then inr st else fail 17 1
                         | _ => fail 17 2
                         end
                     | _ => fail 17 2
                     end
               | None => inr st
               end
           | LWorld =>
               if negb (forallb (fun x => sa_synced x && sa_evok x) w) then inr st else
               let chk (logs : list handle) (obs : list N) : option (list N) :=
                 match obs with
                 | n :: r =>
                     let k := N.to_nat n in
                     let hs := chunk 2 (S (length r)) (take (2 * k) r) in
                     let hints := take (2 * S k) (drop (2 * k) r) in
                     let exp_hints := concat ((fun j => [N.of_nat (k - j); N.of_nat (S (k - j))]) <$> seq 0 (S k)) in
                     if multiset_eq hs (o_handle <$> logs) && lNeqb hints exp_hints then Some (drop (2 * k + 2 * S k) r) else None
                 | _ => None
                 end in
               match chk (concat (sa_created <$> w)) obs with
               | None => fail 17 3
               | Some rest => match chk (concat (sa_destroyed <$> w)) rest with
                              | Some [] => inr st
                              | _ => fail 17 4
                              end
               end
           end
  | OClearEv l =>
      if negb (events cfg) then inr st
      else match l with
           | LArch a => match w !! a with
                        | Some x => inr (set_sarch st w a (SA (sa_live x) (sa_cap x) (sa_cap_exact x) (sa_rem x) (sa_cre x) [] [] (sa_synced x) (sa_synced x)))
                        | None => inr st end
           | LWorld => inr (set_sworld st ((fun x => SA (sa_live x) (sa_cap x) (sa_cap_exact x) (sa_rem x) (sa_cre x) [] [] (sa_synced x) (sa_synced x)) <$> w))
           end
  | _ => inr st
  end
  end
  end.

(** Replay a trace; [Some (index, property, reason)] at the first forbidden observation.
    Observations [254] (the implementation died) and [255] are failures of C03/C10 (memory safety). *)
Fixpoint spec_run (cfg : config) (d : wdecl) (qs : list (list qparam)) (st : sstate) (i : N)
         (ops : list op) (obs : list (list N)) : option (N * N * N) :=
  match ops, obs with
  | o :: ops', ob :: obs' =>
      if lNeqb ob [254%N] then Some (i, 3%N, 99%N)
      else match spec_step cfg d qs st o ob with
           | inl (p, r) => Some (i, p, r)
           | inr st' => spec_run cfg d qs st' (i + 1)%N ops' obs'
           end
  | _, _ => None
  end.

Definition spec_check (cfg : config) (d : wdecl) (qs : list (list qparam)) (ops : list op) (obs : list (list N))
  : option (N * N * N) :=
  spec_run cfg d qs ss0 0%N ops obs.
