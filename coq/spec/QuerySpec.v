(** Declarative reading of a query (C05): which archetypes a parameter list is satisfied by. *)
From Coq Require Import NArith Bool.
From stdpp Require Import base list numbers option.
From Gecs Require Import Query.
Local Open Scope nat_scope.

Definition present (a : darch) (cs : list nat) : list nat := filter (fun c => contains_component a c = true) cs.

Definition sat_param (a : darch) (p : qparam) : bool :=
  match p_type p with
  | PComp c => contains_component a c
  | PEnt n | PDir n => Nat.eqb (da_name a) n
  | PEntWild | PEntAny | PDirWild | PDirAny => true
  | POneOf cs => Nat.eqb (length (present a cs)) 1
  end.

(** An archetype satisfies a query when it satisfies every parameter. *)
Definition sat (a : darch) (ps : list qparam) : bool := forallb (sat_param a) ps.
