(** C17  Event logs record exactly the creations and destructions since the last clear. *)
From Coq Require Import NArith.
From stdpp Require Import base list.
From Gecs Require Import Prim ExtrStorage Storage Query World Run StorageInv StorageResolve StorageOps RunFacts Examples.
Local Open Scope nat_scope.

(** create logs the returned handle, once, in the created log only (both create paths end in force_create). *)
Theorem C17_create_logs_the_handle : forall cfg s h x vs,
  created (created_state cfg s h x vs) = (if events cfg then created s ++ [created_handle s h x] else created s) /\
  destroyed (created_state cfg s h x vs) = destroyed s.
Proof. exact created_events. Qed.

(** every destroy path (all four key kinds, both levels, ecs_iter_destroy!) ends in force_destroy,
    which logs the removed entity's own handle, once, in the destroyed log only. *)
Theorem C17_destroy_logs_the_handle : forall cfg s si d e le va vs',
  destroyed (destroyed_state cfg s si d e le va vs') = (if events cfg then destroyed s ++ [e] else destroyed s) /\
  created (destroyed_state cfg s si d e le va vs') = created s.
Proof. exact destroyed_events. Qed.

(** a destroy that panics (generation overflow) or finds nothing logs nothing: the push comes after the checks. *)
Theorem C17_failed_destroy_logs_nothing : forall cfg k s h p s', Inv s -> key32 h -> destroy cfg k s h = Panic p s' -> s' = s.
Proof. exact destroy_panic_logs_nothing. Qed.

Theorem C17_event_push_follows_the_overflow_checks :
  exists pre post, force_destroy_prog = pre ++ DEvent :: post /\ In DNextArch pre /\ In DNextSlot pre.
Proof. exists [DNextArch; DNextSlot]. eexists. split; [reflexivity|]. split; [left; reflexivity|right; left; reflexivity]. Qed.

(** clear_events empties both logs and touches nothing else; growth and writes leave the logs alone. *)
Theorem C17_clear_only_clears : forall s, created (clear_events s) = [] /\ destroyed (clear_events s) = [] /\
  ents (clear_events s) = ents s /\ cols (clear_events s) = cols s /\ slots (clear_events s) = slots s /\
  len (clear_events s) = len s /\ cap (clear_events s) = cap s /\ version (clear_events s) = version s /\ head (clear_events s) = head s.
Proof. exact clear_events_spec. Qed.

Theorem C17_growth_keeps_logs : forall s n, created (grown s n) = created s /\ destroyed (grown s n) = destroyed s.
Proof. exact grown_events. Qed.

(** the world-level iterator over per-archetype logs (model of EcsEventIterator): on these log shapes,
    including empty logs at the front, in the middle and at the end, it yields the concatenation and
    an exact size_hint before every next().  (Finite instances evaluated by the kernel; the general
    theorem follows.) *)
Example C17_world_iterator_instances :
  let h := (fun k : N => (k, 1%N)) in
  world_events_obs [[h 1%N; h 2%N]; []; [h 3%N]; []] = [3; 1; 1; 2; 1; 3; 1; 3; 4; 2; 3; 1; 2; 0; 1]%N /\
  world_events_obs [[]; []; [h 5%N]] = [1; 5; 1; 1; 2; 0; 1]%N /\
  world_events_obs [[]; []] = [0; 0; 1]%N /\
  world_events_obs [[h 7%N]] = [1; 7; 1; 1; 2; 0; 1]%N.
Proof. vm_compute. repeat split. Qed.

From Gecs Require Import EventFacts.

(** For any number of archetypes and any logs: the world-level iterator yields exactly the
    concatenation of the per-archetype logs (each event once, archetype order), and before the k-th
    next() its size_hint is (total - k, Some (total - k)), observed as the pair (min, max + 1). *)
Theorem C17_world_iterator_exact : forall logs,
  let total := length (concat logs) in
  world_events_obs logs =
    N.of_nat total :: concat (o_handle <$> concat logs)
      ++ concat ((fun k => [N.of_nat (total - k); N.of_nat (S (total - k))]) <$> seq 0 (S total)).
Proof. exact world_events_exact. Qed.

From Gecs Require Import Borrow WorldInv LoopFacts HistRun EventHist.

(** Whole histories: between two points of a history of the run language with no clear_events in
    between (any creations, destructions through entity, dynamic, direct or forged keys,
    ecs_iter_destroy!, queries, clones of other worlds, panics), in every archetype of every
    persisting world: the created log has grown by exactly a duplicate-free list C of handles that were
    not live before, the destroyed log by exactly a duplicate-free list D of handles that were live
    before or are in C, and the live handles now are (those before, plus C) minus D. *)
Theorem C17_logs_are_exactly_the_changes_since : forall cfg d qs ops1 ops2 st1 st2 i a w1 w2 s1 s2,
  events cfg = true -> hist_case cfg d qs (ops1 ++ ops2) = true -> forallb not_clear ops2 = true ->
  run_to cfg d qs rs0 ops1 = Some st1 -> run_to cfg d qs st1 ops2 = Some st2 ->
  worlds st1 !! i = Some (Some w1) -> worlds st2 !! i = Some (Some w2) -> w1 !! a = Some s1 -> w2 !! a = Some s2 ->
  exists C D, created s2 = created s1 ++ C /\ destroyed s2 = destroyed s1 ++ D /\ NoDup C /\ NoDup D /\
    (forall e, e ∈ C -> e ∉ ents s1) /\ (forall e, e ∈ D -> e ∈ ents s1 \/ e ∈ C) /\
    (forall e, e ∈ ents s2 <-> (e ∈ ents s1 \/ e ∈ C) /\ e ∉ D).
Proof. exact run_events_since. Qed.

(** Non-vacuity: create two, clear, then create / destroy by direct handle / ecs_iter_destroy!. *)
Definition c17_decl : wdecl := WD [DA 0%N 0 [DC 0%N 0]; DA 3%N 1 [DC 0%N 0; DC 1%N 1]; DA 4%N 2 [DC 0%N 1; DC 1%N 2; DC 2%N 3]; DA 200%N 3 [DC 0%N 0; DC 1%N 1; DC 2%N 2; DC 3%N 4; DC 4%N 5; DC 5%N 6; DC 6%N 7; DC 7%N 8]] [3].
Definition c17_qs : list (list qparam) := [[QP [] false PEntAny true]].
Definition c17_ops1 : list op := [ONew [2; 2; 2; 2]; OCreate 0 1%N; OCreate 0 2%N; OClearEv LWorld].
Definition c17_ops2 : list op := [OCreate 0 3%N; OToDirect LWorld KEnt TAny (RIssued 0); ODestroy LWorld KDir TAny (RDirect 0); OIterD 0 [DContinueDestroy; DContinue]].
Definition c17_logs (ops : list op) : option (list handle * list handle * list handle) :=
  st ← run_to (Config false true true) c17_decl c17_qs rs0 ops; w ← mjoin (worlds st !! 0); s ← w !! 0; Some (ents s, created s, destroyed s).
Example C17_history_instance :
  hist_case (Config false true true) c17_decl c17_qs (c17_ops1 ++ c17_ops2) = true /\ forallb not_clear c17_ops2 = true /\
  c17_logs c17_ops1 = Some ([(0, 1); (256, 1)], [], [])%N /\
  c17_logs (c17_ops1 ++ c17_ops2) = Some ([(512, 1)], [(512, 1)], [(0, 1); (256, 1)])%N.
Proof. vm_compute. repeat split; reflexivity. Qed.
