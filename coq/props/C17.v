(** C17  Event logs record exactly the creations and destructions since the last clear. *)
From Coq Require Import NArith.
From stdpp Require Import base list.
From Gecs Require Import Prim ExtrStorage Storage Query World Run StorageInv StorageResolve StorageOps RunFacts Examples.
Local Open Scope nat_scope.

(** create logs the returned handle, once, in the created log only (both create paths end in force_create). *)
Theorem C17_create_logs_the_handle : forall cfg s h x vs,
  created (created_state cfg s h x vs) = (if events cfg then created s ++ [created_handle s h x] else created s) /\
  destroyed (created_state cfg s h x vs) = destroyed s.
Proof. exact created_events. Qed.

(** every destroy path (all four key kinds, both levels, ecs_iter_destroy!) ends in force_destroy,
    which logs the removed entity's own handle, once, in the destroyed log only. *)
Theorem C17_destroy_logs_the_handle : forall cfg s si d e le va vs',
  destroyed (destroyed_state cfg s si d e le va vs') = (if events cfg then destroyed s ++ [e] else destroyed s) /\
  created (destroyed_state cfg s si d e le va vs') = created s.
Proof. exact destroyed_events. Qed.

(** a destroy that panics (generation overflow) or finds nothing logs nothing: the push comes after the checks. *)
Theorem C17_failed_destroy_logs_nothing : forall cfg k s h p s', Inv s -> key32 h -> destroy cfg k s h = Panic p s' -> s' = s.
Proof. exact destroy_panic_logs_nothing. Qed.

Theorem C17_event_push_follows_the_overflow_checks :
  exists pre post, force_destroy_prog = pre ++ DEvent :: post /\ In DNextArch pre /\ In DNextSlot pre.
Proof. exists [DNextArch; DNextSlot]. eexists. split; [reflexivity|]. split; [left; reflexivity|right; left; reflexivity]. Qed.

(** clear_events empties both logs and touches nothing else; growth and writes leave the logs alone. *)
Theorem C17_clear_only_clears : forall s, created (clear_events s) = [] /\ destroyed (clear_events s) = [] /\
  ents (clear_events s) = ents s /\ cols (clear_events s) = cols s /\ slots (clear_events s) = slots s /\
  len (clear_events s) = len s /\ cap (clear_events s) = cap s /\ version (clear_events s) = version s /\ head (clear_events s) = head s.
Proof. exact clear_events_spec. Qed.

Theorem C17_growth_keeps_logs : forall s n, created (grown s n) = created s /\ destroyed (grown s n) = destroyed s.
Proof. exact grown_events. Qed.

(** the world-level iterator over per-archetype logs (model of EcsEventIterator): on these log shapes,
    including empty logs at the front, in the middle and at the end, it yields the concatenation and
    an exact size_hint before every next().  (Finite instances evaluated by the kernel; the general
    theorem follows.) *)
Example C17_world_iterator_instances :
  let h := (fun k : N => (k, 1%N)) in
  world_events_obs [[h 1%N; h 2%N]; []; [h 3%N]; []] = [3; 1; 1; 2; 1; 3; 1; 3; 4; 2; 3; 1; 2; 0; 1]%N /\
  world_events_obs [[]; []; [h 5%N]] = [1; 5; 1; 1; 2; 0; 1]%N /\
  world_events_obs [[]; []] = [0; 0; 1]%N /\
  world_events_obs [[h 7%N]] = [1; 7; 1; 1; 2; 0; 1]%N.
Proof. vm_compute. repeat split. Qed.

From Gecs Require Import EventFacts.

(** For any number of archetypes and any logs: the world-level iterator yields exactly the
    concatenation of the per-archetype logs (each event once, archetype order), and before the k-th
    next() its size_hint is (total - k, Some (total - k)), observed as the pair (min, max + 1). *)
Theorem C17_world_iterator_exact : forall logs,
  let total := length (concat logs) in
  world_events_obs logs =
    N.of_nat total :: concat (o_handle <$> concat logs)
      ++ concat ((fun k => [N.of_nat (total - k); N.of_nat (S (total - k))]) <$> seq 0 (S total)).
Proof. exact world_events_exact. Qed.
