(** C14  Handle conversions are lossless, type-faithful and consistent with Eq/Hash.
    Only statements, closed by [exact]; proofs are in proofs/BitsFacts.v and proofs/ConvFacts.v.
    The bit-level definitions are those translated from the Rust sources (gen/ExtrBits.v). *)
From Coq Require Import NArith.
From stdpp Require Import base list.
From Gecs Require Import Prim ExtrBits Storage Query World BitsFacts ConvFacts.
Local Open Scope N_scope.

(** Packing a slot index (below 2^24) and an archetype id (a u8) into a key loses nothing. *)
Theorem C14_pack_unpack : forall slot id, slot < 2^24 -> id < 2^8 ->
  key_index (pack_key slot id) = slot /\ key_arch_id (pack_key slot id) = id.
Proof. intros slot id Hs Hi. split; [exact (key_index_pack slot id Hs Hi) | exact (key_arch_id_pack slot id Hs Hi)]. Qed.

Theorem C14_pack_injective : forall s1 i1 s2 i2, s1 < 2^24 -> i1 < 2^8 -> s2 < 2^24 -> i2 < 2^8 ->
  pack_key s1 i1 = pack_key s2 i2 -> s1 = s2 /\ i1 = i2.
Proof. exact pack_key_inj. Qed.

(** Every 32-bit key is the packing of its two fields (all 2^32 key values). *)
Theorem C14_unpack_pack : forall key, key < 2^32 -> pack_key (key_index key) (key_arch_id key) = key.
Proof. exact pack_unpack. Qed.

(** from_raw(raw(h)) == h, and from_raw rejects exactly a zero generation. *)
Theorem C14_from_raw_raw : forall h, snd h <> 0 -> from_raw (raw_of h) = Some h.
Proof. exact from_raw_raw. Qed.

Theorem C14_from_raw_rejects_only_zero : forall r, from_raw r = None <-> snd r = 0.
Proof. exact from_raw_rejects_exactly_zero. Qed.

(** into_any followed by try_from/from_any returns the original handle exactly when the id matches. *)
Theorem C14_try_from_into_any : forall id h,
  try_from_any id (into_any h) = if decide (handle_archetype_id h = id) then Some h else None.
Proof. exact try_from_into_any. Qed.

(** A handle created for archetype [id] (any slot below 2^24, any generation) reports [id] and
    converts to that archetype's typed handle and to no other. *)
Theorem C14_created_handle_type_faithful : forall slot id id' v, slot < 2^24 -> id < 2^8 ->
  handle_archetype_id (pack_key slot id, v) = id /\
  try_from_any id' (pack_key slot id, v) = if decide (id = id') then Some (pack_key slot id, v) else None.
Proof.
  intros slot id id' v Hs Hi. split; [exact (packed_handle_id slot id v Hs Hi) | exact (packed_handle_try_from slot id id' v Hs Hi)].
Qed.

(** The Select* conversions pick the archetype declaring the packed id, and fail iff no archetype does. *)
Theorem C14_select_some : forall archs h a, select_entity archs h = Some a ->
  exists ad, archs !! a = Some ad /\ da_id ad = handle_archetype_id h.
Proof.
  intros archs h a H. destruct (find_arch_some archs _ a H) as (ad & Hl & Hid & _). exists ad. split; [exact Hl|exact Hid].
Qed.

Theorem C14_select_none : forall archs h, select_entity archs h = None <->
  forall ad, ad ∈ archs -> da_id ad <> handle_archetype_id h.
Proof. intros archs h. exact (find_arch_none archs (key_arch_id (fst h))). Qed.

Theorem C14_select_unique : forall archs h a ad, NoDup (da_id <$> archs) ->
  archs !! a = Some ad -> da_id ad = handle_archetype_id h -> select_entity archs h = Some a.
Proof. intros archs h a ad Hnd Hl Hid. exact (find_arch_unique archs _ a ad Hnd Hl Hid). Qed.

(** Equal handles feed equal words to the hasher (it is a function of the pair), and distinct
    handles feed distinct words. *)
Theorem C14_hash_injective : forall h1 h2, key32 h1 -> key32 h2 ->
  handle_hash_word h1 = handle_hash_word h2 -> h1 = h2.
Proof. exact handle_hash_inj. Qed.

(** `==` on the four handle types is structural (derived on the untyped handles and the version newtypes,
    delegated to the inner untyped handle by the typed ones; translated anchor), i.e. it is equality of
    the (key, version) pair the model uses: handles of distinct entities - which differ in that pair, C08 -
    compare unequal, and equal handles are the same pair, hence hash equally (the hash word is a function
    of the pair).  The harness asserts the same on the implementation for every handle against every
    handle issued so far (`conv`). *)
Theorem C14_eq_is_equality_of_the_bit_pair : handle_eq_is_structural = true.
Proof. reflexivity. Qed.

Theorem C14_equal_handles_hash_equally : forall h1 h2 : handle, h1 = h2 -> handle_hash_word h1 = handle_hash_word h2.
Proof. intros h1 h2 ->. reflexivity. Qed.

From Gecs Require Import Borrow Run Spec OracleFacts.

(** Model against specification oracle: the oracle (spec/Spec.v) checks the declarative reading of this
    property on every conversion observation of the implementation - raw round trip, id byte, the checked
    conversion into every declared archetype succeeding exactly for the archetype whose id the handle
    carries and returning the same pair, the three Select* results.  The model's own observation passes
    that check for EVERY raw pair, declaration and state: the model satisfies the reading, and the
    oracle cannot raise this alarm on code that behaves like the model. *)
Theorem C14_the_oracle_accepts_the_model : forall cfg d qs st sst key ver,
  match step cfg d qs st (OConv KEnt (RRaw key ver)) with
  | Some (st', obs) => st' = st /\ spec_step cfg d qs sst (OConv KEnt (RRaw key ver)) obs = inr sst
  | None => False
  end.
Proof. exact conv_step_accepted. Qed.

Check C14_pack_unpack : forall slot id, slot < 2^24 -> id < 2^8 ->
  key_index (pack_key slot id) = slot /\ key_arch_id (pack_key slot id) = id.
Check C14_unpack_pack : forall key, key < 2^32 -> pack_key (key_index key) (key_arch_id key) = key.
Check C14_from_raw_rejects_only_zero : forall r, from_raw r = None <-> snd r = 0.
Check C14_hash_injective : forall h1 h2, key32 h1 -> key32 h2 ->
  handle_hash_word h1 = handle_hash_word h2 -> h1 = h2.

Print Assumptions C14_pack_unpack.
Print Assumptions C14_pack_injective.
Print Assumptions C14_unpack_pack.
Print Assumptions C14_from_raw_raw.
Print Assumptions C14_from_raw_rejects_only_zero.
Print Assumptions C14_try_from_into_any.
Print Assumptions C14_created_handle_type_faithful.
Print Assumptions C14_select_some.
Print Assumptions C14_select_none.
Print Assumptions C14_select_unique.
Print Assumptions C14_hash_injective.
Print Assumptions C14_eq_is_equality_of_the_bit_pair.
Print Assumptions C14_equal_handles_hash_equally.
Print Assumptions C14_the_oracle_accepts_the_model.
