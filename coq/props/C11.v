(** C11  Runtime-borrowed access panics instead of aliasing, and never refuses wrongly.
    The borrow model (model/Borrow.v) says which RefCell cells each runtime-borrowed access acquires
    and for how long; it is compared with the implementation on the *whole* finite matrix of
    (outer access, inner access) pairs and on random nestings.  The theorems here show that its
    guard-list rule is exactly RefCell's flag discipline. *)
From Coq Require Import NArith.
From stdpp Require Import base list.
From Gecs Require Import Prim Storage Query World Borrow BorrowFacts.
Local Open Scope nat_scope.

(** An acquisition panics iff RefCell's flag refuses it (for every reachable guard list). *)
Theorem C11_panics_iff_refcell_refuses : forall held a col m, wf held ->
  conflicts held a col m = true <-> cell_acquire m (cell_of held a col) = None.
Proof. exact conflicts_iff_refcell. Qed.

(** ... which is: a mutable request conflicts with any guard on the same column of the same
    archetype, a shared one only with a mutable guard there. *)
Theorem C11_conflict_rule : forall held a col m,
  conflicts held a col m = existsb (fun g => on_cell a col g && (m || is_mut g)) held.
Proof. exact conflict_rule. Qed.

(** Different columns or archetypes never interfere; shared with shared always succeeds. *)
Theorem C11_other_cell_independent : forall held a col m a' c' m', (a', c') <> (a, col) ->
  conflicts (held ++ [(a', c', m')]) a col m = conflicts held a col m.
Proof. exact other_cell_independent. Qed.

Theorem C11_shared_shared_ok : forall held a col, forallb (fun g => negb (on_cell a col g && is_mut g)) held = true ->
  conflicts held a col false = false.
Proof. exact shared_shared_ok. Qed.

(** Granted accesses keep the guard list realisable and move the flag as RefCell does; dropping the
    guard restores the flag exactly, so nothing is refused spuriously later. *)
Theorem C11_acquire_keeps_wf : forall held a col m, wf held -> conflicts held a col m = false -> wf (held ++ [(a, col, m)]).
Proof. exact acquire_wf. Qed.

Theorem C11_acquire_moves_flag : forall held a col m, wf held -> conflicts held a col m = false ->
  cell_acquire m (cell_of held a col) = Some (cell_of (held ++ [(a, col, m)]) a col).
Proof. exact acquire_flag. Qed.

Theorem C11_release_restores : forall held a col m, wf held -> conflicts held a col m = false ->
  cell_release m (cell_of (held ++ [(a, col, m)]) a col) = cell_of held a col /\
  removelast (held ++ [(a, col, m)]) = held.
Proof. exact release_restores. Qed.

(** A closure's borrows end with the closure call, also by unwinding: what follows a find/iter/clone
    runs under exactly the guards that were held before it. *)
Theorem C11_closure_guards_end_with_the_call : forall fuel d qs w issued outer frame cmd rest,
  match cmd with BFb _ _ _ | BIb _ _ | BCl => True | _ => False end ->
  exists recs, bexec (S fuel) d qs w issued outer frame (cmd :: rest) =
               (recs ++ fst (bexec fuel d qs w issued outer frame rest), snd (bexec fuel d qs w issued outer frame rest)).
Proof. exact closure_guards_end_with_the_call. Qed.

(** clone panics exactly while some column is mutably borrowed. *)
Theorem C11_clone_rule : forall held, clone_conflicts held = existsb is_mut held.
Proof. exact clone_rule. Qed.

Example C11_nonvacuous : wf [(1, 0, false); (1, 0, false); (0, 0, true)] /\
  conflicts [(1, 0, false); (1, 0, false); (0, 0, true)] 1 0 true = true /\
  conflicts [(1, 0, false); (1, 0, false); (0, 0, true)] 1 0 false = false /\
  conflicts [(1, 0, false); (1, 0, false); (0, 0, true)] 1 1 true = false.
Proof.
  split; [|repeat split].
  intros a col H. destruct a as [|[|a]], col as [|col]; cbn in *; try done.
Qed.
