(** C11  Runtime-borrowed access panics instead of aliasing, and never refuses wrongly.
    The borrow model (model/Borrow.v) says which RefCell cells each runtime-borrowed access acquires
    and for how long; it is compared with the implementation on the *whole* finite matrix of
    (outer access, inner access) pairs and on random nestings.  The theorems here show that its
    guard-list rule is exactly RefCell's flag discipline. *)
From Coq Require Import NArith.
From stdpp Require Import base list.
From Gecs Require Import Prim Storage Query World Borrow BorrowFacts.
Local Open Scope nat_scope.

(** An acquisition panics iff RefCell's flag refuses it (for every reachable guard list). *)
Theorem C11_panics_iff_refcell_refuses : forall held a col m, wf held ->
  conflicts held a col m = true <-> cell_acquire m (cell_of held a col) = None.
Proof. exact conflicts_iff_refcell. Qed.

(** ... which is: a mutable request conflicts with any guard on the same column of the same
    archetype, a shared one only with a mutable guard there. *)
Theorem C11_conflict_rule : forall held a col m,
  conflicts held a col m = existsb (fun g => on_cell a col g && (m || is_mut g)) held.
Proof. exact conflict_rule. Qed.

(** Different columns or archetypes never interfere; shared with shared always succeeds. *)
Theorem C11_other_cell_independent : forall held a col m a' c' m', (a', c') <> (a, col) ->
  conflicts (held ++ [(a', c', m')]) a col m = conflicts held a col m.
Proof. exact other_cell_independent. Qed.

Theorem C11_shared_shared_ok : forall held a col, forallb (fun g => negb (on_cell a col g && is_mut g)) held = true ->
  conflicts held a col false = false.
Proof. exact shared_shared_ok. Qed.

(** Granted accesses keep the guard list realisable and move the flag as RefCell does; dropping the
    guard restores the flag exactly, so nothing is refused spuriously later. *)
Theorem C11_acquire_keeps_wf : forall held a col m, wf held -> conflicts held a col m = false -> wf (held ++ [(a, col, m)]).
Proof. exact acquire_wf. Qed.

Theorem C11_acquire_moves_flag : forall held a col m, wf held -> conflicts held a col m = false ->
  cell_acquire m (cell_of held a col) = Some (cell_of (held ++ [(a, col, m)]) a col).
Proof. exact acquire_flag. Qed.

Theorem C11_release_restores : forall held a col m, wf held -> conflicts held a col m = false ->
  cell_release m (cell_of (held ++ [(a, col, m)]) a col) = cell_of held a col /\
  removelast (held ++ [(a, col, m)]) = held.
Proof. exact release_restores. Qed.

(** A closure's borrows end with the closure call, also by unwinding: what follows a find/iter/clone
    runs under exactly the guards that were held before it. *)
Theorem C11_closure_guards_end_with_the_call : forall fuel d qs w issued outer frame cmd rest,
  match cmd with BFb _ _ _ | BIb _ _ | BCl => True | _ => False end ->
  exists recs, bexec (S fuel) d qs w issued outer frame (cmd :: rest) =
               (recs ++ fst (bexec fuel d qs w issued outer frame rest), snd (bexec fuel d qs w issued outer frame rest)).
Proof. exact closure_guards_end_with_the_call. Qed.

(** clone panics exactly while some column is mutably borrowed. *)
Theorem C11_clone_rule : forall held, clone_conflicts held = existsb is_mut held.
Proof. exact clone_rule. Qed.

Example C11_nonvacuous : wf [(1, 0, false); (1, 0, false); (0, 0, true)] /\
  conflicts [(1, 0, false); (1, 0, false); (0, 0, true)] 1 0 true = true /\
  conflicts [(1, 0, false); (1, 0, false); (0, 0, true)] 1 0 false = false /\
  conflicts [(1, 0, false); (1, 0, false); (0, 0, true)] 1 1 true = false.
Proof.
  split; [|repeat split].
  intros a col H. destruct a as [|[|a]], col as [|col]; cbn in *; try done.
Qed.

(* ---------------------------------------------------------------- whole programs *)
From Gecs Require Import ExtrBits BorrowSafe.
Local Open Scope nat_scope.

(** No execution of any runtime-borrow program - any nesting of guards, ecs_find_borrow! and
    ecs_iter_borrow! closures, clones, releases and panics - ever holds aliasing guards: every guard
    list in force at any point, in the program or in a closure body at any depth ([in_force]), is one
    RefCell can be in: a mutable guard is alone on its column.  The harness starts from no guards. *)
Theorem C11_no_execution_holds_aliasing_guards : forall d qs w issued outer frame cmds H,
  in_force d qs w issued outer frame cmds H -> wf (outer ++ frame) -> wf H.
Proof. exact in_force_wf. Qed.

Theorem C11_a_program_never_aliases : forall d qs w issued prog H, in_force d qs w issued [] [] prog H -> wf H.
Proof. exact program_never_aliases. Qed.

(** The guard lists of [in_force] are the ones the executable model (which is compared with the
    implementation) continues with: after a command that is not a panic, [bexec] runs the rest of the list
    in the frame [frame_after]; an ecs_find_borrow! body runs in a fresh frame under exactly the guards
    [acquire_all] grants. *)
Theorem C11_the_model_continues_in_that_frame : forall fuel d qs w issued outer frame cmd rest, cmd <> BPn ->
  exists recs, bexec (S fuel) d qs w issued outer frame (cmd :: rest) =
    (recs ++ fst (bexec fuel d qs w issued outer (frame_after d w issued outer frame cmd) rest),
     snd (bexec fuel d qs w issued outer (frame_after d w issued outer frame cmd) rest)).
Proof. exact bexec_step. Qed.

Theorem C11_a_find_body_runs_under_the_granted_guards : forall fuel d qs w issued outer frame q k body rest h plan a acc s i held' r,
  issued !! k = Some h -> qs !! q ≫= query_plan d = Some plan ->
  find_arch (wd_archs d) (key_arch_id (fst h)) = Some a -> plan !! a = Some (Some acc) -> w !! a = Some s ->
  resolve_for (Config false false false) KEnt s h = ROk (Some i) ->
  acquire_all (outer ++ frame) (acc_guards a acc) = Some held' -> closure_record s i acc = Some r ->
  exists after, fst (bexec (S fuel) d qs w issued outer frame (BFb q k body :: rest)) =
                brec r ++ fst (bexec fuel d qs w issued held' [] body) ++ after.
Proof. exact bexec_find_body. Qed.

(** Non-vacuity: in a one-archetype world, after a granted mutable slice guard the second command runs
    under that guard (and is refused: see C11_nonvacuous for the conflict rule). *)
Definition c11_decl : wdecl := WD [DA 0%N 0 [DC 0%N 0]] [].
Definition c11_world : world := match new_world (wd_archs c11_decl) [2%nat] with Ok w _ => w | _ => [] end.
Example C11_in_force_instance :
  in_force c11_decl [] c11_world [] [] [] [BHs 0 0 true; BHs 0 0 false] ([] ++ [(0, 0, true)]).
Proof. apply if_rest; [done|]. exact (if_here c11_decl [] c11_world [] [] [(0, 0, true)] (BHs 0 0 false) []). Qed.
