(** C04  Each component value is dropped exactly once; nothing leaks or double-drops.
    In the model a component value lives in exactly one cell of one column list (lists cannot alias),
    and leaves it only by being handed back to the caller or by the storage's drop.  The theorems
    say that these are the only exits, that each takes every concerned cell exactly once, and that
    no operation duplicates or loses a cell.  Values moved into a panicking operation are the
    subject of C10. *)
From Coq Require Import NArith.
From stdpp Require Import base list.
From Gecs Require Import Prim ExtrStorage Storage StorageInv StorageResolve StorageOps RunFacts Examples.
Local Open Scope nat_scope.

(** create stores the given values exactly once (one new row, at position len). *)
Theorem C04_create_stores_once : forall cfg s h x vs i, Inv s -> length vs = length (cols s) -> i <= len s ->
  abs_at (created_state cfg s h x vs) i = if decide (i = len s) then Some (created_handle s h x, vs) else abs_at s i.
Proof. exact created_abs. Qed.

(** a refused create_within_capacity leaves the storage untouched: the values go back to the caller. *)
Theorem C04_refused_create_hands_back : forall cfg s vs, Inv s -> length vs = length (cols s) -> ~ len s < cap s ->
  push_within cfg s vs = Ok s None.
Proof.
  intros cfg s vs HI Hvs Hn. pose proof (push_within_spec cfg s vs HI Hvs) as H.
  destruct (decide (len s < cap s)); [contradiction|exact H].
Qed.

(** destroy hands back exactly the removed entity's row; every other row survives exactly once
    (C02_destroy); a panicking destroy keeps everything. *)
Theorem C04_destroy_hands_back_the_row : forall cfg k s h, Inv s -> key32 h -> destroy_result cfg k s h (destroy cfg k s h).
Proof. exact destroy_cases. Qed.

Theorem C04_destroy_keeps_the_others : forall cfg s si d e va vs' i, Inv s -> ents s !! d = Some e -> i < len s - 1 ->
  abs_at (destroyed_state cfg s si d e (last_ent s e) va vs') i = if decide (i = d) then abs_at s (len s - 1) else abs_at s i.
Proof. exact destroyed_abs. Qed.

(** dropping the storage drops exactly the initialised cells: all of them, each once. *)
Theorem C04_drop_takes_every_cell_once : forall s, Inv s -> drop_cells s = Some (cols s).
Proof. exact drop_cells_spec. Qed.

(** every column holds exactly len cells: no value is stored twice or missing. *)
Theorem C04_one_cell_per_entity_and_column : forall s, Inv s -> Forall (fun c => length c = len s) (cols s).
Proof. exact cells_count. Qed.

(** clone produces one fresh copy per live cell (the two storages are separate values). *)
Theorem C04_clone_copies_each_cell_once : forall s, Inv s -> clone_storage s = Some s.
Proof. exact clone_storage_spec. Qed.

(* ---------------------------------------------------------------- run level *)
From Gecs Require Import Query World Borrow Run WorldInv RunCells.

(** Whole histories: in every state reached by any history of the run language (including the states
    left behind by panicking operations and armed Clone/Drop faults), every storage of every live
    world holds exactly one initialised cell per (live entity, column) - nothing was dropped while
    its entity is alive, nothing is kept for an entity that is gone -, dropping that world drops
    exactly these cells, each once, and cloning it copies each exactly once. *)
Theorem C04_every_reachable_world_owns_one_cell_per_entity_and_column : forall cfg d qs ops, wf_case d ops = true ->
  exists sts, run_states cfg d qs rs0 ops = Some sts /\ length sts = length ops /\
    Forall (fun st => forall w s, Some w ∈ worlds st -> s ∈ w ->
              Forall (fun c => length c = len s) (cols s) /\ drop_cells s = Some (cols s) /\ clone_storage s = Some s) sts.
Proof. exact run_cells. Qed.

Example C04_nonvacuous : drop_cells ex4 = Some [[30; 20]; [31; 21]]%N.
Proof. vm_compute. reflexivity. Qed.
