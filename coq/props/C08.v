(** C08  No handle is ever issued twice within a world. *)
From Coq Require Import NArith.
From stdpp Require Import base list.
From Gecs Require Import Prim ExtrBits ExtrVersion Storage BitsFacts VersionFacts StorageInv StorageResolve StorageHist StorageOps Examples.
Local Open Scope nat_scope.

(** Within an archetype: the handle a create returns is different from every handle issued before. *)
Theorem C08_created_handle_fresh : forall s iss h x, Inv s -> Hist s iss -> head s = Free h -> slots s !! h = Some x ->
  sidx_is_free (s_idx x) = true -> h < cap s -> created_handle s h x ∉ iss.
Proof. exact created_fresh. Qed.

(** Across archetypes: handles created for different archetype ids differ (the id is part of the key). *)
Theorem C08_distinct_archetypes_distinct_keys : forall s1 i1 s2 i2, (s1 < 2^24)%N -> (i1 < 2^8)%N -> (s2 < 2^24)%N -> (i2 < 2^8)%N ->
  i1 <> i2 -> pack_key s1 i1 <> pack_key s2 i2.
Proof. intros s1 i1 s2 i2 H1 H2 H3 H4 Hne E. destruct (pack_key_inj s1 i1 s2 i2 H1 H2 H3 H4 E) as [_ E']. exact (Hne E'). Qed.

(** Default configuration: a generation counter never wraps; at 2^32-1 the operation panics instead. *)
Theorem C08_checked_next_increases : forall v v', slot_next false v = Some v' -> v' = (v + 1)%N /\ (v' < 2^32)%N.
Proof. exact slot_next_checked. Qed.

Theorem C08_overflow_panics : slot_next false (2^32 - 1)%N = None /\ arch_next false (2^32 - 1)%N = None.
Proof. split; reflexivity. Qed.

(** The overflow panic happens before anything is modified (see C10), so no handle is reissued:
    a destroy either strictly raises the slot's generation or leaves the storage as it was. *)
Theorem C08_destroy_raises_generation : forall cfg k s h, Inv s -> key32 h -> destroy_result cfg k s h (destroy cfg k s h).
Proof. exact destroy_cases. Qed.

(** wrapping_version: the documented exception. *)
Theorem C08_wrap_reissues : slot_next true (2^32 - 1)%N = Some VERSION_START.
Proof. exact wrap_reissues. Qed.

Check C08_created_handle_fresh : forall s iss h x, Inv s -> Hist s iss -> head s = Free h -> slots s !! h = Some x ->
  sidx_is_free (s_idx x) = true -> h < cap s -> created_handle s h x ∉ iss.

(* ---------------------------------------------------------------- whole histories *)
From Gecs Require Import Query World Borrow Run WorldInv LoopFacts HistRun.

(** For every history of the run language without generation wraparound: a create in archetype [a]
    of world [i] never returns a handle that was stored there at any earlier point. *)
Theorem C08_no_handle_twice : forall cfg d qs ops1 ops2 st1 st2 i a w1 w2 s1 s2 e vs s3 h,
  hist_case cfg d qs (ops1 ++ ops2) = true ->
  run_to cfg d qs rs0 ops1 = Some st1 -> run_to cfg d qs st1 ops2 = Some st2 ->
  worlds st1 !! i = Some (Some w1) -> worlds st2 !! i = Some (Some w2) -> w1 !! a = Some s1 -> w2 !! a = Some s2 ->
  e ∈ ents s1 -> length vs = length (cols s2) -> push cfg s2 vs = Ok s3 h -> h <> e.
Proof. exact run_create_fresh. Qed.

(** The ghost history behind it: the issued handles of a storage are pairwise distinct, the removed
    ones are stored nowhere, and every issued handle is either removed or stored. *)
Theorem C08_ghost_history_exists : forall cfg s, wrapping cfg = false -> sreach true true cfg s ->
  Inv s /\ exists iss dead, Hist2 s iss dead.
Proof. exact (sreach_hist2 true true). Qed.
Check (h2_nodup : forall s iss dead, Hist2 s iss dead -> NoDup iss).

(* ---------------------------------------------------------------- the oracle's reading, whole histories *)
From Gecs Require Import Spec OracleSim.

(** "No two create calls ever return equal handles", as the specification oracle reads it on implementation traces:
    every handle a create returns is compared with every handle issued before in that world's lineage.  For ALL
    histories of the core language (OracleSim: creations in any archetype interleaved with destructions, to_direct,
    writes, queries of len, read-all passes and probes) the oracle accepts the whole run of the model. *)
Theorem C08_the_model_refines_the_oracle : forall cfg d qs caps w ops,
  wrapping cfg = false -> wf_decl d -> NoDup (da_id <$> wd_archs d) ->
  length caps = length (wd_archs d) -> new_world (wd_archs d) caps = Ok w tt ->
  forallb (l0_op d) ops = true ->
  spec_check cfg d qs (ONew caps :: ops) (run cfg d qs (ONew caps :: ops)) = None.
Proof. exact core_language_refines_the_oracle. Qed.
