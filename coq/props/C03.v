(** C03  Arbitrary, forged or foreign handles are memory-safe and never match by accident.
    Storage level: every 32-bit key against every invariant state, in debug and release
    configurations.  [RUB] is the model's outcome for any unchecked access outside initialised,
    allocated memory. *)
From Coq Require Import NArith.
From stdpp Require Import base list.
From Gecs Require Import Prim ExtrBits ExtrVersion Storage StorageInv StorageResolve StorageOps Examples.
Local Open Scope nat_scope.

(** No key whatsoever makes the slot lookup touch memory it must not: the outcome is acceptance
    of a stored entity agreeing with the key on slot and generation, absence, or (debug builds,
    slot index beyond capacity) the documented debug assertion. *)
Theorem C03_entity_lookup_total : forall cfg s h, Inv s -> key32 h ->
  match resolve_entity cfg s h with
  | ROk (Some (si, d)) =>
      exists e, ents s !! d = Some e /\ eslot e = si /\ hslot h = hslot e /\ snd h = snd e /\ si = N.to_nat (hslot h)
  | ROk None => True
  | RPanic p => p = PDebug /\ debug cfg = true /\ (N.of_nat (cap s) <= hslot h)%N /\ 0 < len s
  | RUB => False
  end.
Proof. intros cfg s h HI. exact (resolve_entity_cases cfg s HI h). Qed.

Theorem C03_direct_lookup_total : forall cfg s h, Inv s -> key32 h ->
  match resolve_direct cfg s h with
  | ROk (Some (si, d)) =>
      snd h = version s /\ d = N.to_nat (hdense h) /\ d < len s /\ exists e, ents s !! d = Some e /\ eslot e = si
  | ROk None => len s = 0 \/ snd h <> version s \/ (N.of_nat (len s) <= hdense h)%N
  | RPanic p => p = PDebug /\ debug cfg = true /\ snd h = version s /\ (N.of_nat (len s) <= hdense h)%N /\ 0 < len s
  | RUB => False
  end.
Proof. intros cfg s h HI. exact (resolve_direct_cases cfg s HI h). Qed.

(** An accepted key that names this archetype is bit-identical to the live entity's handle. *)
Theorem C03_accept_only_identical : forall cfg s h si d, Inv s -> key32 h -> key_arch_id (fst h) = aid s ->
  resolve_entity cfg s h = ROk (Some (si, d)) -> ents s !! d = Some h.
Proof. intros cfg s h si d HI. exact (resolve_entity_exact cfg s HI h si d). Qed.

(** Destroying through any key never yields UB; a panic leaves the storage untouched. *)
Theorem C03_destroy_total : forall cfg k s h, Inv s -> key32 h -> destroy_result cfg k s h (destroy cfg k s h).
Proof. exact destroy_cases. Qed.

(** Recorded finding F3, as a theorem about the faithful model: a key whose packed archetype id is
    another archetype's (here id 7 on a storage of archetype 3) is accepted whenever slot and
    generation match, and reaches this archetype's entity although the two handles differ. *)
Theorem C03_typed_id_mismatch_refuted :
  exists cfg s h si d e, Inv s /\ key32 h /\ key_arch_id (fst h) <> aid s /\
    resolve_entity cfg s h = ROk (Some (si, d)) /\ ents s !! d = Some e /\ e <> h.
Proof.
  exists ex_cfg, ex3, (7%N, 1%N), 0, 0, (3%N, 1%N).
  split; [exact ex3_inv|]. split; [unfold key32; cbn; lia|]. split; [vm_compute; discriminate|].
  split; [vm_compute; reflexivity|]. split; [vm_compute; reflexivity|discriminate].
Qed.

Check C03_entity_lookup_total : forall cfg s h, Inv s -> key32 h ->
  match resolve_entity cfg s h with
  | ROk (Some (si, d)) =>
      exists e, ents s !! d = Some e /\ eslot e = si /\ hslot h = hslot e /\ snd h = snd e /\ si = N.to_nat (hslot h)
  | ROk None => True
  | RPanic p => p = PDebug /\ debug cfg = true /\ (N.of_nat (cap s) <= hslot h)%N /\ 0 < len s
  | RUB => False
  end.

(* ---------------------------------------------------------------- run level *)
From Gecs Require Import Query World Borrow Run WorldInv.

(** Any 32-bit raw pair, with any static typing (dynamic, checked, unchecked conversion, or typed for
    an archetype of another id), through any keyed path (destroy, every lookup path, to_direct, every
    write path, find queries), at world or archetype level, on any reachable state: never undefined
    behaviour, and the state stays invariant. *)
Theorem C03_any_key_any_path_never_ub : forall cfg d qs st l k t key ver, wf_decl d -> RInv d st ->
  (key < 2^32)%N -> (ver < 2^32)%N ->
  Forall (fun o => match step cfg d qs st o with Some (st', _) => RInv d st' | None => False end)
    [ODestroy l k t (RRaw key ver); OProbe l k t (RRaw key ver); OToDirect l k t (RRaw key ver)].
Proof.
  intros cfg d qs st l k t key ver Hd HR Hk Hv.
  repeat constructor; apply step_inv; try done; split; done.
Qed.

Theorem C03_no_lookup_path_is_ub : forall cfg typed k s h, Inv s -> hpair32 h ->
  (exists x, probe_storage_world cfg typed k s h = ROk x) /\ (exists x, probe_storage_arch cfg k s h = ROk x).
Proof. intros. split; [by apply probe_world_ok|by apply probe_arch_ok]. Qed.

(* ---------------------------------------------------------------- forged handles against the oracle, whole histories *)
From Gecs Require Import Spec OracleSim OracleRaw.

(** "Any handle value whatsoever ... either reports absence (or panics cleanly), or, only when bit-identical to the
    handle of a live entity, reaches exactly that entity", as the specification oracle reads it on implementation
    traces.  For ALL histories of the core language of OracleSim extended with destroys and probes, at world and archetype level, through ANY
    raw pair of 32-bit words - never issued, stale, naming another archetype or none, generation zero, slot index
    beyond the capacity (the documented debug assertion) - the oracle accepts the whole run of the model. *)
Theorem C03_forged_handles_refine_the_oracle : forall cfg d qs caps w ops,
  wrapping cfg = false -> wf_decl d -> NoDup (da_id <$> wd_archs d) ->
  length caps = length (wd_archs d) -> new_world (wd_archs d) caps = Ok w tt ->
  forallb (l1_op d) ops = true ->
  spec_check cfg d qs (ONew caps :: ops) (run cfg d qs (ONew caps :: ops)) = None.
Proof. exact core_language_with_forged_handles_refines_the_oracle. Qed.

Definition c03_core_decl : wdecl := WD [DA 0%N 0 [DC 0%N 0]; DA 3%N 1 [DC 0%N 0; DC 1%N 1]] [].
Definition c03_core_ops : list op :=
  [OCreate 1 5%N; OCreate 0 6%N; OProbe LWorld KEnt TAny (RRaw 3%N 1%N); OProbe LWorld KEnt TAny (RRaw 3%N 2%N);
   OProbe LWorld KEnt TAny (RRaw 259%N 1%N); OProbe LWorld KEnt TAny (RRaw 7%N 1%N); OProbe LWorld KEnt TAny (RRaw 3%N 0%N);
   OProbe LWorld KEnt TAny (RRaw 4294967043%N 1%N); ODestroy LWorld KEnt TAny (RIssued 0); OProbe LWorld KEnt TAny (RRaw 3%N 1%N);
   OCreate 1 7%N; OProbe LWorld KEnt TAny (RRaw 3%N 2%N); OProbe LWorld KEnt TAny (RRaw 0%N 1%N);
   OProbe (LArch 1) KEnt TAny (RRaw 3%N 2%N); OProbe (LArch 0) KEnt TAny (RRaw 3%N 2%N); OProbe (LArch 1) KEnt TAny (RRaw 4294967043%N 7%N);
   ODestroy LWorld KEnt TAny (RRaw 3%N 1%N); ODestroy LWorld KEnt TAny (RRaw 3%N 2%N); ODestroy LWorld KEnt TAny (RRaw 3%N 2%N);
   ODestroy LWorld KEnt TAny (RRaw 9%N 2%N); ODestroy LWorld KEnt TAny (RRaw 3%N 0%N); OProbe LWorld KEnt TAny (RIssued 2); OLen 1;
   OCreate 1 9%N; ODestroy (LArch 0) KEnt TAny (RRaw 3%N 3%N); ODestroy (LArch 1) KEnt TAny (RRaw 3%N 3%N); ODestroy (LArch 1) KEnt TAny (RRaw 3%N 3%N); OLen 1;
   OCreate 1 11%N; OToDirect LWorld KEnt TAny (RRaw 3%N 4%N); OToDirect LWorld KEnt TAny (RRaw 3%N 3%N); OToDirect LWorld KEnt TAny (RRaw 7%N 4%N);
   OToDirect (LArch 1) KEnt TAny (RRaw 3%N 4%N); OToDirect (LArch 0) KEnt TAny (RRaw 3%N 4%N); OToDirect LWorld KEnt TAny (RRaw 3%N 0%N);
   OToDirect LWorld KEnt TAny (RRaw 4294967043%N 4%N); OConv KEnt (RRaw 3%N 4%N); OConv KEnt (RRaw 1027%N 0%N); OConv KEnt (RRaw 7%N 9%N); ODump 1; ODump 0; ODump 5].
Example C03_core_language_instance :
  forallb (l1_op c03_core_decl) c03_core_ops = true /\
  spec_check (Config false false true) c03_core_decl [] (ONew [1; 1] :: c03_core_ops)
             (run (Config false false true) c03_core_decl [] (ONew [1; 1] :: c03_core_ops)) = None /\
  nth 6 (run (Config false false true) c03_core_decl [] (ONew [1; 1] :: c03_core_ops)) [] = [2; 6; 2; 6; 2; 6; 2; 6]%N /\
  nth 8 (run (Config false false true) c03_core_decl [] (ONew [1; 1] :: c03_core_ops)) [] = [2; 5; 2; 5; 2; 5; 2; 5]%N.
Proof. vm_compute. repeat split; reflexivity. Qed.
