(** C03  Arbitrary, forged or foreign handles are memory-safe and never match by accident.
    Storage level: every 32-bit key against every invariant state, in debug and release
    configurations.  [RUB] is the model's outcome for any unchecked access outside initialised,
    allocated memory. *)
From Coq Require Import NArith.
From stdpp Require Import base list.
From Gecs Require Import Prim ExtrBits ExtrVersion Storage StorageInv StorageResolve StorageOps Examples.
Local Open Scope nat_scope.

(** No key whatsoever makes the slot lookup touch memory it must not: the outcome is acceptance
    of a stored entity agreeing with the key on slot and generation, absence, or (debug builds,
    slot index beyond capacity) the documented debug assertion. *)
Theorem C03_entity_lookup_total : forall cfg s h, Inv s -> key32 h ->
  match resolve_entity cfg s h with
  | ROk (Some (si, d)) =>
      exists e, ents s !! d = Some e /\ eslot e = si /\ hslot h = hslot e /\ snd h = snd e /\ si = N.to_nat (hslot h)
  | ROk None => True
  | RPanic p => p = PDebug /\ debug cfg = true /\ (N.of_nat (cap s) <= hslot h)%N /\ 0 < len s
  | RUB => False
  end.
Proof. intros cfg s h HI. exact (resolve_entity_cases cfg s HI h). Qed.

Theorem C03_direct_lookup_total : forall cfg s h, Inv s -> key32 h ->
  match resolve_direct cfg s h with
  | ROk (Some (si, d)) =>
      snd h = version s /\ d = N.to_nat (hdense h) /\ d < len s /\ exists e, ents s !! d = Some e /\ eslot e = si
  | ROk None => len s = 0 \/ snd h <> version s \/ (N.of_nat (len s) <= hdense h)%N
  | RPanic p => p = PDebug /\ debug cfg = true /\ snd h = version s /\ (N.of_nat (len s) <= hdense h)%N /\ 0 < len s
  | RUB => False
  end.
Proof. intros cfg s h HI. exact (resolve_direct_cases cfg s HI h). Qed.

(** An accepted key that names this archetype is bit-identical to the live entity's handle. *)
Theorem C03_accept_only_identical : forall cfg s h si d, Inv s -> key32 h -> key_arch_id (fst h) = aid s ->
  resolve_entity cfg s h = ROk (Some (si, d)) -> ents s !! d = Some h.
Proof. intros cfg s h si d HI. exact (resolve_entity_exact cfg s HI h si d). Qed.

(** Destroying through any key never yields UB; a panic leaves the storage untouched. *)
Theorem C03_destroy_total : forall cfg k s h, Inv s -> key32 h -> destroy_result cfg k s h (destroy cfg k s h).
Proof. exact destroy_cases. Qed.

(** Recorded finding F3, as a theorem about the faithful model: a key whose packed archetype id is
    another archetype's (here id 7 on a storage of archetype 3) is accepted whenever slot and
    generation match, and reaches this archetype's entity although the two handles differ. *)
Theorem C03_typed_id_mismatch_refuted :
  exists cfg s h si d e, Inv s /\ key32 h /\ key_arch_id (fst h) <> aid s /\
    resolve_entity cfg s h = ROk (Some (si, d)) /\ ents s !! d = Some e /\ e <> h.
Proof.
  exists ex_cfg, ex3, (7%N, 1%N), 0, 0, (3%N, 1%N).
  split; [exact ex3_inv|]. split; [unfold key32; cbn; lia|]. split; [vm_compute; discriminate|].
  split; [vm_compute; reflexivity|]. split; [vm_compute; reflexivity|discriminate].
Qed.

Check C03_entity_lookup_total : forall cfg s h, Inv s -> key32 h ->
  match resolve_entity cfg s h with
  | ROk (Some (si, d)) =>
      exists e, ents s !! d = Some e /\ eslot e = si /\ hslot h = hslot e /\ snd h = snd e /\ si = N.to_nat (hslot h)
  | ROk None => True
  | RPanic p => p = PDebug /\ debug cfg = true /\ (N.of_nat (cap s) <= hslot h)%N /\ 0 < len s
  | RUB => False
  end.
