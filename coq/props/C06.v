(** C06  Iteration visits every matching live entity exactly once with its own data.
    Storage level: what the slice accessors, entities(), Archetype::iter/iter_mut present, and that
    one pass never repeats a handle; and, by induction over the loops of ecs_iter!/ecs_iter_borrow!
    as modelled in World.iter_arch/iter_world (tied to the implementation by stream S5), the closed
    form of a whole query for every world, plan, break point and panic point. *)
From Coq Require Import NArith.
From stdpp Require Import base list.
From Gecs Require Import Prim Storage Query World Run StorageInv StorageOps RunFacts WorldInv LoopFacts Examples.
Local Open Scope nat_scope.

(** Exactly len items; item i is the handle and the row of dense position i. *)
Theorem C06_pass_presents_each_position_once : forall s, Inv s ->
  exists rows, all_rows s = Some rows /\ length rows = len s /\
    forall i, i < len s -> exists e r, abs_at s i = Some (e, r) /\ rows !! i = Some (o_handle e ++ r).
Proof. exact all_rows_spec. Qed.

(** The handles of one pass are pairwise distinct: no entity is presented twice. *)
Theorem C06_no_entity_twice : forall s, Inv s -> NoDup (ents s).
Proof. exact pass_handles_distinct. Qed.

(** Break ends the whole query: the generators wrap all archetype loops in one closure and `return`. *)
Theorem C06_break_returns_from_all : ExtrQuery.iter_break_returns_from_all = true.
Proof. reflexivity. Qed.

Example C06_nonvacuous : all_rows ex4 = Some [[515; 1; 30; 31]; [259; 1; 20; 21]]%N.
Proof. vm_compute. reflexivity. Qed.

(* ---------------------------------------------------------------- the query loops *)

(** One closure call touches only the row it visits, and what it sees depends only on that row. *)
Theorem C06_closure_call_is_local : forall acc s s' i ver delta o s1 ds, same_row i s s' ->
  call_closure s i ver delta acc = Some (o, s1, ds) ->
  forall o' s1' ds', call_closure s' i ver delta acc = Some (o', s1', ds') -> o' = o /\ ds' = ds /\ same_row i s1 s1'.
Proof. exact call_closure_local. Qed.

Theorem C06_closure_call_frame : forall acc s i ver delta o s1 ds, call_closure s i ver delta acc = Some (o, s1, ds) ->
  ents s1 = ents s /\ aid s1 = aid s /\ forall col j, j <> i -> cell s1 col j = cell s col j.
Proof. exact call_closure_frame. Qed.

(** The whole query: the closure is called on a prefix of [world_records] (every live entity of every
    matched archetype exactly once, archetype order then dense order, each call seeing what it would
    see on the untouched world: the entity's own handle and own values), and the prefix ends exactly at
    the first call that breaks or panics, in whichever archetype: Break ends the whole query. *)
Theorem C06_query_visits_each_live_entity_once : forall delta break_at panic_at archs w, Forall2 SInv archs w ->
  forall plan ord, wf_plan archs plan ->
  exists w' recs ds k stp, iter_world w plan delta ord break_at panic_at = Some (w', recs, ds, stp) /\
    recs = take k (world_records w plan delta) /\ Forall2 SInv archs w' /\
    Forall2 (fun s s' => len s' = len s) w w' /\
    stopped break_at panic_at ord k (matched_len w plan) stp.
Proof. exact iter_world_spec. Qed.

(** Without break or panic the number of calls is the sum of len() over the matched archetypes. *)
Theorem C06_item_count_is_len : forall delta archs w plan ord, Forall2 SInv archs w -> wf_plan archs plan ->
  exists w' ds, iter_world w plan delta ord None None = Some (w', world_records w plan delta, ds, SNone) /\
    length (world_records w plan delta) = matched_len w plan.
Proof. exact iter_world_complete. Qed.

Check stopped : option nat -> option nat -> nat -> nat -> nat -> stop -> Prop.
Check (eq_refl : stopped None None 0 3 3 SNone = (3 = 3 /\ forall m, m < 3 -> stop_of None None (0 + m) = SNone)).

Definition c06_ad : darch := DA 3%N 0 [DC 0%N 0; DC 1%N 1].
Example C06_hypotheses_hold : Forall2 SInv [c06_ad] [ex3] /\ wf_plan [c06_ad] [Some [AEnt; ACol 1 true false]].
Proof. split; [constructor; [split_and!; [exact ex3_inv|reflexivity|reflexivity]|constructor]|]. repeat constructor. Qed.
Example C06_concrete_query_with_break :
  match iter_world [ex3] [Some [AEnt; ACol 1 true false]] 5%N 0 (Some 1) None with
  | Some (w', recs, _, stp) => recs = [[4; 3; 3; 1; 11]; [4; 3; 259; 1; 21]]%N /\ stp = SBreak /\ (cols <$> w') = [[[10; 20; 30]; [16; 26; 31]]]%N
  | None => False
  end.
Proof. vm_compute. repeat split; reflexivity. Qed.

(** Every accessor of the storage presents exactly `len` items (the bound written in the source of
    iter, iter_mut, get_all_slices_mut (entities and columns), get_slice_entities, get_slice(_mut),
    borrow_slice(_mut), borrow_component(_mut); DataPtr::slice/slice_mut return `len` items for every
    element type), and the iterators step every column pointer at every item: translated on this run. *)
Theorem C06_every_accessor_presents_len_items :
  Forall (fun b => b = ExtrStorage.CBLen) ExtrStorage.accessor_bounds /\ ExtrStorage.iterators_step_every_column = true.
Proof. split; [repeat constructor|reflexivity]. Qed.

(* ---------------------------------------------------------------- the model refines the oracle, read-all included *)
From Gecs Require Import Spec OracleSim.

(** "Presents each live entity exactly once, paired with its own handle and components, and nothing else; the
    number of items equals len()", as the specification oracle reads it on implementation traces: every read-all
    observation (Archetype::iter, iter_mut, get_all_slices_mut, get_slice, borrow_slice with entities()) must be, as
    a multiset of rows, exactly the oracle's record of the live entities with their latest values.  For ALL
    histories of the core language (creations, destructions, to_direct, writes, len queries, probes and read-all
    passes in any order, with any issued handle) the oracle accepts the whole run of the model. *)
Theorem C06_the_model_refines_the_oracle_read_all_included : forall cfg d qs caps w ops,
  wrapping cfg = false -> wf_decl d -> NoDup (da_id <$> wd_archs d) ->
  length caps = length (wd_archs d) -> new_world (wd_archs d) caps = Ok w tt ->
  forallb (l0_op d) ops = true ->
  spec_check cfg d qs (ONew caps :: ops) (run cfg d qs (ONew caps :: ops)) = None.
Proof. exact core_language_refines_the_oracle. Qed.

Definition c06_core_decl : wdecl := WD [DA 0%N 0 [DC 0%N 0]; DA 3%N 1 [DC 0%N 0; DC 1%N 1]] [].
Definition c06_core_ops : list op :=
  [OCreate 1 5%N; OCreate 1 6%N; OCreate 1 7%N; OReadAll RIter 1; ODestroy (LArch 1) KEnt TAny (RIssued 0); OReadAll RSlices 1;
   OWrite WView 1 KEnt TAny (RIssued 2) 1 9%N; OReadAll RIterMut 1; OReadAll RSlice 0; OCreate 1 8%N; OReadAll RBSlice 1].
Example C06_core_language_instance :
  forallb (l0_op c06_core_decl) c06_core_ops = true /\
  spec_check (Config false false true) c06_core_decl [] (ONew [1; 1] :: c06_core_ops)
             (run (Config false false true) c06_core_decl [] (ONew [1; 1] :: c06_core_ops)) = None /\
  nth 6 (run (Config false false true) c06_core_decl [] (ONew [1; 1] :: c06_core_ops)) [] = [2; 515; 1; 448; 449; 259; 1; 384; 385]%N.
Proof. vm_compute. repeat split; reflexivity. Qed.
