(** C06  Iteration visits every matching live entity exactly once with its own data.
    Storage level: what the slice accessors, entities(), Archetype::iter/iter_mut present, and that
    one pass never repeats a handle.  (The query loops walk the same dense range; their model is
    tied to the implementation by stream S5.) *)
From Coq Require Import NArith.
From stdpp Require Import base list.
From Gecs Require Import Prim Storage Query World Run StorageInv StorageOps RunFacts Examples.
Local Open Scope nat_scope.

(** Exactly len items; item i is the handle and the row of dense position i. *)
Theorem C06_pass_presents_each_position_once : forall s, Inv s ->
  exists rows, all_rows s = Some rows /\ length rows = len s /\
    forall i, i < len s -> exists e r, abs_at s i = Some (e, r) /\ rows !! i = Some (o_handle e ++ r).
Proof. exact all_rows_spec. Qed.

(** The handles of one pass are pairwise distinct: no entity is presented twice. *)
Theorem C06_no_entity_twice : forall s, Inv s -> NoDup (ents s).
Proof. exact pass_handles_distinct. Qed.

(** Break ends the whole query: the generators wrap all archetype loops in one closure and `return`. *)
Theorem C06_break_returns_from_all : ExtrQuery.iter_break_returns_from_all = true.
Proof. reflexivity. Qed.

Example C06_nonvacuous : all_rows ex4 = Some [[515; 1; 30; 31]; [259; 1; 20; 21]]%N.
Proof. vm_compute. reflexivity. Qed.
