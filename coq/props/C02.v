(** C02  Every access path returns the entity's own, latest component values.
    Storage level: [abs_at s i] is the (handle, row of values) every read path of position [i] shows
    (the model's view/borrow/slices/iterators all read [ents] and [row_at]); create, destroy and a
    component write change it exactly as the specification says, for any number of columns. *)
From Coq Require Import NArith.
From stdpp Require Import base list.
From Gecs Require Import Prim Storage StorageInv StorageResolve StorageOps Examples.
Local Open Scope nat_scope.

Theorem C02_every_live_position_has_its_row : forall s i, Inv s -> i < len s ->
  exists e r, abs_at s i = Some (e, r) /\ ents s !! i = Some e /\ length r = length (cols s).
Proof. exact abs_at_some. Qed.

(** create: the new entity holds exactly the values passed; nobody else changes. *)
Theorem C02_create : forall cfg s h x vs i, Inv s -> length vs = length (cols s) -> i <= len s ->
  abs_at (created_state cfg s h x vs) i = if decide (i = len s) then Some (created_handle s h x, vs) else abs_at s i.
Proof. exact created_abs. Qed.

(** destroy: the relocated (former last) entity keeps its handle and values; all others are untouched;
    the removed entity's values are what destroy returns. *)
Theorem C02_destroy : forall cfg s si d e va vs' i, Inv s -> ents s !! d = Some e -> i < len s - 1 ->
  abs_at (destroyed_state cfg s si d e (last_ent s e) va vs') i = if decide (i = d) then abs_at s (len s - 1) else abs_at s i.
Proof. exact destroyed_abs. Qed.

Theorem C02_destroy_returns_own_row : forall cfg k s h, Inv s -> key32 h -> destroy_result cfg k s h (destroy cfg k s h).
Proof. exact destroy_cases. Qed.

(** a write through any mutable path updates exactly one cell of one entity. *)
Theorem C02_write : forall s col d v s' i, write_col s col d v = Some s' ->
  abs_at s' i = match abs_at s i with
                | Some (e, r) => Some (e, if decide (i = d) then <[col := v]> r else r)
                | None => None
                end.
Proof. exact write_col_abs. Qed.

Theorem C02_write_keeps_invariant : forall s col d v s', Inv s -> write_col s col d v = Some s' -> Inv s'.
Proof. exact write_col_inv. Qed.

(** growth and clone change no position. *)
Theorem C02_grow : forall s n i, abs_at (grown s n) i = abs_at s i.
Proof. reflexivity. Qed.

Theorem C02_clone : forall s, Inv s -> clone_storage s = Some s.
Proof. exact clone_storage_spec. Qed.

Example C02_nonvacuous : abs_at ex4 0 = Some ((515, 1), [30; 31])%N /\ abs_at ex3 0 = Some ((3, 1), [10; 11])%N.
Proof. split; vm_compute; reflexivity. Qed.

(* ---------------------------------------------------------------- whole histories *)
From Gecs Require Import Query World Borrow Run WorldInv LoopFacts HistRun ValueHist.

(** One closure call (any query, any parameter list) writes nothing outside the row it visits. *)
Theorem C02_query_write_touches_only_the_visited_row : forall acc s i ver delta o s1 ds,
  call_closure s i ver delta acc = Some (o, s1, ds) ->
  ents s1 = ents s /\ aid s1 = aid s /\ forall col j, j <> i -> cell s1 col j = cell s col j.
Proof. exact call_closure_frame. Qed.

(** Between two points of a history of the run language with no writing operation in between
    (creations with growth, destructions with the relocations they cause, ecs_iter_destroy!, read-only
    queries, clears, clones and drops of worlds, panics), every entity still stored in an archetype of a
    persisting world has exactly the component values it had. *)
Theorem C02_values_survive_everything_but_writes : forall cfg d qs ops1 ops2 st1 st2 i a w1 w2 s1 s2 e r,
  hist_case cfg d qs (ops1 ++ ops2) = true -> forallb not_writing ops2 = true ->
  run_to cfg d qs rs0 ops1 = Some st1 -> run_to cfg d qs st1 ops2 = Some st2 ->
  worlds st1 !! i = Some (Some w1) -> worlds st2 !! i = Some (Some w2) -> w1 !! a = Some s1 -> w2 !! a = Some s2 ->
  row_in s1 e r -> e ∈ ents s2 -> row_in s2 e r.
Proof. exact run_rows_preserved. Qed.

(** Non-vacuity: three entities; the first is destroyed (relocating the third), the storage grows,
    an ecs_iter_destroy! pass removes another one; the survivor keeps its values at a new position. *)
Definition c02_decl : wdecl := WD [DA 0%N 0 [DC 0%N 0]; DA 3%N 1 [DC 0%N 0; DC 1%N 1]; DA 4%N 2 [DC 0%N 1; DC 1%N 2; DC 2%N 3]; DA 200%N 3 [DC 0%N 0; DC 1%N 1; DC 2%N 2; DC 3%N 4; DC 4%N 5; DC 5%N 6; DC 6%N 7; DC 7%N 8]] [3].
Definition c02_qs : list (list qparam) := [[QP [] false PEntAny true]].
Definition c02_ops1 : list op := [ONew [2; 3; 2; 2]; OCreate 1 10%N; OCreate 1 20%N; OCreate 1 30%N].
Definition c02_ops2 : list op := [ODestroy LWorld KEnt TAny (RIssued 0); OCreate 1 40%N; OCreate 1 50%N; OIterD 0 [DContinue; DContinueDestroy]; OClone].
Definition c02_rows (ops : list op) : option (list (option (handle * list val))) :=
  st ← run_to (Config false true true) c02_decl c02_qs rs0 ops; w ← mjoin (worlds st !! 0); s ← w !! 1; Some ((fun i => abs_at s i) <$> seq 0 (len s)).
Example C02_history_instance :
  hist_case (Config false true true) c02_decl c02_qs (c02_ops1 ++ c02_ops2) = true /\ forallb not_writing c02_ops2 = true /\
  c02_rows c02_ops1 = Some [Some ((3, 1), [640; 641]); Some ((259, 1), [1280; 1281]); Some ((515, 1), [1920; 1921])]%N /\
  c02_rows (c02_ops1 ++ c02_ops2) = Some [Some ((515, 1), [1920; 1921]); Some ((259, 1), [1280; 1281]); Some ((771, 1), [3200; 3201])]%N.
Proof. vm_compute. repeat split; reflexivity. Qed.

(* ---------------------------------------------------------------- destroy, as observed *)
From Gecs Require Import ExtrBits ExtrVersion ObsFacts.
Local Open Scope nat_scope.

(** The destroy operation of the run language (through one archetype, dynamically typed handle carrying
    its id, no armed Drop fault), in any reachable state: for a stored handle below the generation
    limits the observation hands back exactly that entity's current row and the archetype moves to
    [destroyed_state] (every other row kept, C02_destroy above); for a handle that is not stored it
    reports absence and nothing changes.  The same closed form for the lookups is C01_probe_observation_*. *)
Theorem C02_destroy_observation : forall cfg d qs st w r e b bd s, RInv d st ->
  cur_world st = Some w -> get_href st KEnt r = Some e -> snd e <> 0%N -> key32 e ->
  wd_archs d !! b = Some bd -> w !! b = Some s -> da_id bd = key_arch_id (fst e) -> eslot e < cap s -> drop_in st = 0%N ->
  match list_find (fun x => x = e) (ents s) with
  | Some (dd, _) => forall va vs', arch_next (wrapping cfg) (version s) = Some va -> slot_next (wrapping cfg) (snd e) = Some vs' ->
      step cfg d qs st (ODestroy (LArch b) KEnt TAny r) =
        Some (set_drop_in (set_world st (upd w b (destroyed_state cfg s (eslot e) dd e (last_ent s e) va vs'))) 0%N,
              1%N :: default [] (snd <$> abs_at s dd))
  | None => step cfg d qs st (ODestroy (LArch b) KEnt TAny r) = Some (st, [0%N])
  end.
Proof. exact step_destroy_any_arch. Qed.

(* ---------------------------------------------------------------- the model refines the oracle, writes included *)
From Gecs Require Import Spec OracleSim.

(** "Every access path returns the entity's own, latest component values", as the specification oracle reads
    it on implementation traces: a write replaces one value of one entity in the oracle's record, and every later
    probe must show, on every path, exactly the recorded values of the entity probed.  For ALL histories of the
    core language - creations, destructions, to_direct, writes through the six direct write paths and probes, with
    any issued handle (live, stale, of another archetype), in any order - the oracle accepts the whole run of the
    model (C01_the_model_refines_the_oracle_on_the_core_language is the same theorem). *)
Theorem C02_the_model_refines_the_oracle_writes_included : forall cfg d qs caps w ops,
  wrapping cfg = false -> wf_decl d -> NoDup (da_id <$> wd_archs d) ->
  length caps = length (wd_archs d) -> new_world (wd_archs d) caps = Ok w tt ->
  forallb (l0_op d) ops = true ->
  spec_check cfg d qs (ONew caps :: ops) (run cfg d qs (ONew caps :: ops)) = None.
Proof. exact core_language_refines_the_oracle. Qed.

(** Non-vacuity: writes through several paths, seen by later probes (the archetype-level probe's views show the row). *)
Definition c02_core_decl : wdecl := WD [DA 0%N 0 [DC 0%N 0]; DA 3%N 1 [DC 0%N 0; DC 1%N 1]] [].
Definition c02_core_ops : list op :=
  [OCreate 1 5%N; OCreate 1 6%N; OWrite WView 1 KEnt TAny (RIssued 0) 1 77%N; OProbe (LArch 1) KEnt TAny (RIssued 0);
   OWrite WSlices 1 KEnt TAny (RIssued 1) 0 88%N; ODestroy (LArch 1) KEnt TAny (RIssued 0); OProbe (LArch 1) KEnt TAny (RIssued 1);
   OWrite WBorrow 1 KEnt TAny (RIssued 0) 0 1%N; OWrite WIterMut 0 KEnt TAny (RIssued 1) 0 2%N; OWrite WSlice 1 KEnt TAny (RIssued 1) 7 3%N;
   ODestroy LWorld KEnt TAny (RIssued 1)].
Example C02_core_language_instance :
  forallb (l0_op c02_core_decl) c02_core_ops = true /\
  spec_check (Config false false true) c02_core_decl [] (ONew [1; 1] :: c02_core_ops)
             (run (Config false false true) c02_core_decl [] (ONew [1; 1] :: c02_core_ops)) = None /\
  nth 4 (run (Config false false true) c02_core_decl [] (ONew [1; 1] :: c02_core_ops)) [] =
    [1; 1; 0; 1; 3; 1; 1; 0; 3; 1; 320; 77; 1; 0; 3; 1; 320; 77]%N.
Proof. vm_compute. repeat split; reflexivity. Qed.
