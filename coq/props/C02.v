(** C02  Every access path returns the entity's own, latest component values.
    Storage level: [abs_at s i] is the (handle, row of values) every read path of position [i] shows
    (the model's view/borrow/slices/iterators all read [ents] and [row_at]); create, destroy and a
    component write change it exactly as the specification says, for any number of columns. *)
From Coq Require Import NArith.
From stdpp Require Import base list.
From Gecs Require Import Prim Storage StorageInv StorageResolve StorageOps Examples.
Local Open Scope nat_scope.

Theorem C02_every_live_position_has_its_row : forall s i, Inv s -> i < len s ->
  exists e r, abs_at s i = Some (e, r) /\ ents s !! i = Some e /\ length r = length (cols s).
Proof. exact abs_at_some. Qed.

(** create: the new entity holds exactly the values passed; nobody else changes. *)
Theorem C02_create : forall cfg s h x vs i, Inv s -> length vs = length (cols s) -> i <= len s ->
  abs_at (created_state cfg s h x vs) i = if decide (i = len s) then Some (created_handle s h x, vs) else abs_at s i.
Proof. exact created_abs. Qed.

(** destroy: the relocated (former last) entity keeps its handle and values; all others are untouched;
    the removed entity's values are what destroy returns. *)
Theorem C02_destroy : forall cfg s si d e va vs' i, Inv s -> ents s !! d = Some e -> i < len s - 1 ->
  abs_at (destroyed_state cfg s si d e (last_ent s e) va vs') i = if decide (i = d) then abs_at s (len s - 1) else abs_at s i.
Proof. exact destroyed_abs. Qed.

Theorem C02_destroy_returns_own_row : forall cfg k s h, Inv s -> key32 h -> destroy_result cfg k s h (destroy cfg k s h).
Proof. exact destroy_cases. Qed.

(** a write through any mutable path updates exactly one cell of one entity. *)
Theorem C02_write : forall s col d v s' i, write_col s col d v = Some s' ->
  abs_at s' i = match abs_at s i with
                | Some (e, r) => Some (e, if decide (i = d) then <[col := v]> r else r)
                | None => None
                end.
Proof. exact write_col_abs. Qed.

Theorem C02_write_keeps_invariant : forall s col d v s', Inv s -> write_col s col d v = Some s' -> Inv s'.
Proof. exact write_col_inv. Qed.

(** growth and clone change no position. *)
Theorem C02_grow : forall s n i, abs_at (grown s n) i = abs_at s i.
Proof. reflexivity. Qed.

Theorem C02_clone : forall s, Inv s -> clone_storage s = Some s.
Proof. exact clone_storage_spec. Qed.

Example C02_nonvacuous : abs_at ex4 0 = Some ((515, 1), [30; 31])%N /\ abs_at ex3 0 = Some ((3, 1), [10; 11])%N.
Proof. split; vm_compute; reflexivity. Qed.
