(** C09  A direct handle never designates another entity and dies with any removal. *)
From Coq Require Import NArith.
From stdpp Require Import base list.
From Gecs Require Import Prim ExtrBits ExtrVersion ExtrStorage ExtrQuery Storage VersionFacts StorageInv StorageResolve StorageOps Examples.
Local Open Scope nat_scope.

(** Accepted => it designates the entity at its own dense index, and carries the current version. *)
Theorem C09_accepted_designates_its_position : forall cfg s h, Inv s -> key32 h ->
  match resolve_direct cfg s h with
  | ROk (Some (si, d)) =>
      snd h = version s /\ d = N.to_nat (hdense h) /\ d < len s /\ exists e, ents s !! d = Some e /\ eslot e = si
  | ROk None => len s = 0 \/ snd h <> version s \/ (N.of_nat (len s) <= hdense h)%N
  | RPanic p => p = PDebug /\ debug cfg = true /\ snd h = version s /\ (N.of_nat (len s) <= hdense h)%N /\ 0 < len s
  | RUB => False
  end.
Proof. intros cfg s h HI. exact (resolve_direct_cases cfg s HI h). Qed.

(** It is accepted at the moment it is issued (to_direct, or the handle a query hands out for index d). *)
Theorem C09_accepted_at_issue : forall cfg s d e, Inv s -> ents s !! d = Some e ->
  resolve_direct cfg s (direct_of s d) = ROk (Some (eslot e, d)).
Proof. exact direct_accepted_at_issue. Qed.

Theorem C09_to_direct_issues_position_handle : forall cfg s h si d, Inv s -> resolve_entity cfg s h = ROk (Some (si, d)) ->
  to_direct cfg KEnt s h = ROk (Some (direct_of s d)).
Proof. exact to_direct_ent_spec. Qed.

(** to_direct on a direct key is itself a validating lookup (repaired defect F2). *)
Theorem C09_to_direct_validates : forall cfg s h,
  to_direct cfg KDir s h = match resolve_direct cfg s h with
                           | ROk (Some _) => ROk (Some h) | ROk None => ROk None | RPanic p => RPanic p | RUB => RUB end.
Proof. intros cfg s h. exact (to_direct_dir_spec cfg s h eq_refl). Qed.

(** ecs_iter_destroy! reads the version it hands out inside the loop (repaired defect F1). *)
Theorem C09_iter_destroy_reads_version_in_loop : iter_destroy_version_in_loop = true.
Proof. reflexivity. Qed.

(** No later structural change (creates only): still accepted, same entity. *)
Theorem C09_survives_create : forall cfg s h x vs hd si d, Inv s -> Inv (created_state cfg s h x vs) -> key32 hd ->
  resolve_direct cfg s hd = ROk (Some (si, d)) ->
  resolve_direct cfg (created_state cfg s h x vs) hd = ROk (Some (si, d)) /\
  ents (created_state cfg s h x vs) !! d = ents s !! d.
Proof. exact created_keeps_directs. Qed.

(** Any removal: rejected from then on (the version it carries is no longer the archetype's). *)
Theorem C09_dies_with_removal : forall cfg s si d e va vs' hd, Inv s -> Inv (destroyed_state cfg s si d e (last_ent s e) va vs') ->
  key32 hd -> snd hd = version s -> arch_next (wrapping cfg) (version s) = Some va ->
  resolve_direct cfg (destroyed_state cfg s si d e (last_ent s e) va vs') hd = ROk None.
Proof. exact destroyed_rejects_directs. Qed.

Theorem C09_version_strictly_increases : forall v va, arch_next false v = Some va -> (v < va)%N.
Proof. exact arch_next_checked_lt. Qed.

Example C09_nonvacuous : resolve_direct ex_cfg ex3 (direct_of ex3 1) = ROk (Some (1, 1)) /\
                         resolve_direct ex_cfg ex4 (direct_of ex3 1) = ROk None.
Proof. split; vm_compute; reflexivity. Qed.

(* ---------------------------------------------------------------- whole histories *)
From Gecs Require Import Query World Borrow Run WorldInv LoopFacts HistRun DirectHist.

(** Along any history without wraparound the archetype version never decreases, and it has strictly
    increased whenever some entity has left the archetype, by whatever path. *)
Theorem C09_version_is_monotone_and_counts_removals : forall ac wr cfg s s',
  wrapping cfg = false -> Inv s -> esteps ac wr cfg s s' ->
  (version s <= version s')%N /\ ((exists e, e ∈ ents s /\ e ∉ ents s') -> (version s < version s')%N).
Proof. exact esteps_version. Qed.

(** Hence, for every history of the run language: a direct handle accepted at one point is rejected at
    every later point by which some entity has left its archetype (destroy with any key, ecs_iter_destroy!),
    no matter what else happened in between (creations, growth, reuse of the position, clones). *)
Theorem C09_dies_with_any_removal : forall cfg d qs ops1 ops2 st1 st2 i a w1 w2 s1 s2 dh si dd,
  hist_case cfg d qs (ops1 ++ ops2) = true ->
  run_to cfg d qs rs0 ops1 = Some st1 -> run_to cfg d qs st1 ops2 = Some st2 ->
  worlds st1 !! i = Some (Some w1) -> worlds st2 !! i = Some (Some w2) -> w1 !! a = Some s1 -> w2 !! a = Some s2 ->
  key32 dh -> resolve_direct cfg s1 dh = ROk (Some (si, dd)) -> (exists e, e ∈ ents s1 /\ e ∉ ents s2) ->
  resolve_direct cfg s2 dh = ROk None.
Proof. exact run_direct_dies. Qed.
