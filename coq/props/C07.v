(** C07  ecs_iter_destroy! visits each entity once and destroys exactly the flagged ones.
    The loop walks dense indices in reverse and destroys the entity at the current index; the
    storage-level facts that make this visit every entity alive at loop start exactly once are:
    removing position d relocates only the former last entity (into d) and leaves every position
    below d untouched, len drops by one, and the destroyed handle is stored nowhere afterwards.
    (The loop itself is modelled in World.iterd_arch and tied to the implementation by stream S6;
    its inductive proof is not yet part of the development: see DESIGN.md.) *)
From Coq Require Import NArith.
From stdpp Require Import base list.
From Gecs Require Import Prim ExtrQuery Storage VersionFacts StorageInv StorageResolve StorageHist StorageOps RunFacts Examples.
Local Open Scope nat_scope.

(** positions below the removed one keep their entity and values (these are the ones still to visit). *)
Theorem C07_positions_below_are_untouched : forall cfg s si d e va vs' i, Inv s -> ents s !! d = Some e -> i < d -> d < len s ->
  abs_at (destroyed_state cfg s si d e (last_ent s e) va vs') i = abs_at s i.
Proof.
  intros cfg s si d e va vs' i HI Hd Hi Hdl. rewrite (destroyed_abs cfg s si d e va vs' i HI Hd) by lia.
  destruct (decide (i = d)); [lia|reflexivity].
Qed.

(** the entity moved into the removed position was already visited (it came from the end). *)
Theorem C07_relocated_entity_comes_from_the_end : forall cfg s si d e va vs', Inv s -> ents s !! d = Some e -> d < len s - 1 ->
  abs_at (destroyed_state cfg s si d e (last_ent s e) va vs') d = abs_at s (len s - 1).
Proof.
  intros cfg s si d e va vs' HI Hd Hdl. rewrite (destroyed_abs cfg s si d e va vs' d HI Hd) by lia.
  destruct (decide (d = d)); [reflexivity|contradiction].
Qed.

(** exactly the flagged entity disappears: it is stored nowhere afterwards, and stays rejected (C01). *)
Theorem C07_destroyed_is_gone : forall cfg s iss si d e va vs', Inv s -> Hist s iss -> ents s !! d = Some e -> eslot e = si ->
  (snd e < vs')%N -> in_ver va -> in_ver vs' ->
  Hist (destroyed_state cfg s si d e (last_ent s e) va vs') iss /\
  (forall i, ents (destroyed_state cfg s si d e (last_ent s e) va vs') !! i <> Some e).
Proof. exact hist_destroyed. Qed.

(** the direct handle handed to the closure carries the version read inside the loop, so it designates
    the visited entity at that moment (repaired defect F1). *)
Theorem C07_direct_handle_is_current : iter_destroy_version_in_loop = true /\
  forall cfg s d e, Inv s -> ents s !! d = Some e -> resolve_direct cfg s (direct_of s d) = ROk (Some (eslot e, d)).
Proof. split; [reflexivity|exact direct_accepted_at_issue]. Qed.
