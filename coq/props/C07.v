(** C07  ecs_iter_destroy! visits each entity once and destroys exactly the flagged ones.
    The loop walks dense indices in reverse and destroys the entity at the current index; the
    storage-level facts that make this visit every entity alive at loop start exactly once are:
    removing position d relocates only the former last entity (into d) and leaves every position
    below d untouched, len drops by one, and the destroyed handle is stored nowhere afterwards.
    The loop itself (World.iterd_arch, tied to the implementation by stream S6) is then proved by
    induction over the reverse index for every decision sequence. *)
From Coq Require Import NArith.
From stdpp Require Import base list.
From Gecs Require Import Prim ExtrQuery Storage Query World Run VersionFacts StorageInv StorageResolve StorageHist StorageOps RunFacts WorldInv LoopFacts LoopPanic Examples.
Local Open Scope nat_scope.

(** positions below the removed one keep their entity and values (these are the ones still to visit). *)
Theorem C07_positions_below_are_untouched : forall cfg s si d e va vs' i, Inv s -> ents s !! d = Some e -> i < d -> d < len s ->
  abs_at (destroyed_state cfg s si d e (last_ent s e) va vs') i = abs_at s i.
Proof.
  intros cfg s si d e va vs' i HI Hd Hi Hdl. rewrite (destroyed_abs cfg s si d e va vs' i HI Hd) by lia.
  destruct (decide (i = d)); [lia|reflexivity].
Qed.

(** the entity moved into the removed position was already visited (it came from the end). *)
Theorem C07_relocated_entity_comes_from_the_end : forall cfg s si d e va vs', Inv s -> ents s !! d = Some e -> d < len s - 1 ->
  abs_at (destroyed_state cfg s si d e (last_ent s e) va vs') d = abs_at s (len s - 1).
Proof.
  intros cfg s si d e va vs' HI Hd Hdl. rewrite (destroyed_abs cfg s si d e va vs' d HI Hd) by lia.
  destruct (decide (d = d)); [reflexivity|contradiction].
Qed.

(** exactly the flagged entity disappears: it is stored nowhere afterwards, and stays rejected (C01). *)
Theorem C07_destroyed_is_gone : forall cfg s iss si d e va vs', Inv s -> Hist s iss -> ents s !! d = Some e -> eslot e = si ->
  (snd e < vs')%N -> in_ver va -> in_ver vs' ->
  Hist (destroyed_state cfg s si d e (last_ent s e) va vs') iss /\
  (forall i, ents (destroyed_state cfg s si d e (last_ent s e) va vs') !! i <> Some e).
Proof. exact hist_destroyed. Qed.

(** the direct handle handed to the closure carries the version read inside the loop, so it designates
    the visited entity at that moment (repaired defect F1). *)
Theorem C07_direct_handle_is_current : iter_destroy_version_in_loop = true /\
  forall cfg s d e, Inv s -> ents s !! d = Some e -> resolve_direct cfg s (direct_of s d) = ROk (Some (eslot e, d)).
Proof. split; [reflexivity|exact direct_accepted_at_issue]. Qed.

(* ---------------------------------------------------------------- the loop *)

(** ecs_iter_destroy! over one archetype, for every decision sequence, when it returns normally:
    k visits of the distinct positions len-1, len-2, .., each seeing the original row of that position
    and a direct handle that is accepted and designates it; the loop stops exactly at the first
    Break/BreakDestroy; and the rows (handle with values) present afterwards are exactly the original
    rows that were not both visited and flagged ContinueDestroy/BreakDestroy. *)
Theorem C07_loop_visits_once_and_destroys_exactly_the_flagged :
  forall cfg ad acc nz decs s ord din s1 recs ds ord1 stp din1,
  iter_destroy_version_in_loop = true -> wf_access ad acc -> SInv ad s ->
  iterd_arch cfg (len s) s (version s) acc nz ord decs din = Ok (s1, recs, ds, ord1, stp, din1) tt ->
  exists k, ord1 = ord + k /\ length recs = k /\ k <= len s /\ SInv ad s1 /\
    (forall t, t < k -> exists rec, recs !! t = Some rec /\ visit_ok cfg ad acc s (len s - 1 - t) rec) /\
    match stp with
    | SNone => k = len s /\ (forall t, t < k -> breaks (dec_at decs (ord + t)) = false)
    | SBreak => 1 <= k /\ breaks (dec_at decs (ord + (k - 1))) = true /\ (forall t, t + 1 < k -> breaks (dec_at decs (ord + t)) = false)
    | SPanic => False
    end /\
    (forall x, (exists j, j < len s1 /\ abs_at s1 j = Some x) <->
               (exists i, i < len s /\ abs_at s i = Some x /\
                          ~ (len s - 1 - i < k /\ destroys (dec_at decs (ord + (len s - 1 - i))) = true))).
Proof. exact iterd_arch_whole. Qed.

(** A loop that panics (closure panic, component Drop panic, generation overflow) or returns
    normally leaves every storage invariant, and is never undefined behaviour. *)
Theorem C07_loop_never_ub : forall cfg d decs archs w, Forall2 SInv archs w ->
  forall plan ord din, wf_plan archs plan ->
  match iterd_world cfg d archs w plan ord decs din with
  | Ok (w', recs, ds, din1) _ | Panic _ (w', recs, ds, din1) => Forall2 SInv archs w' /\ Forall hpair32 ds
  | UB => False
  end.
Proof. exact iterd_world_ok. Qed.

(** The loop left by a panic (closure panic, Drop of a removed component, generation or version
    overflow inside destroy; wrapping or not): k >= 1 visits of distinct positions in reverse, each
    seeing the original row; no earlier visit asked to stop; the panic has one of the documented
    causes; and the surviving rows are exactly the original rows except those visited, flagged and
    actually removed: every flagged visit before the last, and the last one exactly when the panic
    came from the Drop of the row it had just removed ([gone]).  An entity is thus either fully
    present or fully absent after the panic (C10), and nothing unflagged was removed. *)
Theorem C07_loop_left_by_a_panic_removed_exactly_the_completed :
  forall cfg ad acc nz decs s ord din p s1 recs ds ord1 stp din1,
  iter_destroy_version_in_loop = true -> wf_access ad acc -> SInv ad s ->
  iterd_arch cfg (len s) s (version s) acc nz ord decs din = Panic p (s1, recs, ds, ord1, stp, din1) ->
  exists k, 1 <= k /\ ord1 = ord + k /\ length recs = k /\ k <= len s /\ SInv ad s1 /\ stp = SPanic /\
    (forall t, t < k -> exists rec, recs !! t = Some rec /\ visit_ok cfg ad acc s (len s - 1 - t) rec) /\
    (forall t, t + 1 < k -> breaks (dec_at decs (ord + t)) = false) /\
    panic_cause p (dec_at decs (ord + (k - 1))) /\
    (forall x, (exists j, j < len s1 /\ abs_at s1 j = Some x) <->
               (exists i, i < len s /\ abs_at s i = Some x /\
                          ~ (len s - 1 - i < k /\ gone p k decs ord (len s - 1 - i) = true))).
Proof. exact iterd_arch_panic_whole. Qed.
Check (eq_refl : gone PDrop 2 [DContinueDestroy; DContinueDestroy] 0 1 = true).
Check (eq_refl : gone PClosure 2 [DContinueDestroy; DClosurePanic] 0 1 = false).
Check (eq_refl : gone PSlotOverflow 1 [DContinueDestroy] 0 0 = false).

(** Break/BreakDestroy ends the whole query: later archetypes are returned untouched. *)
Theorem C07_break_ends_the_whole_query : forall cfg d a ar s wr acc pr ord decs din s1 recs ds ord1 din1,
  iterd_arch cfg (len s) s (version s) acc (nz_cols d a) ord decs din = Ok (s1, recs, ds, ord1, SBreak, din1) tt ->
  iterd_world cfg d (a :: ar) (s :: wr) (Some acc :: pr) ord decs din = Ok (s1 :: wr, recs, ds, din1) tt.
Proof. exact iterd_world_break. Qed.

(** ... and so does a panic: the archetypes after the panicking one are returned untouched. *)
Theorem C07_panic_ends_the_whole_query : forall cfg d a ar s wr acc pr ord decs din p s1 recs ds ord1 stp din1,
  iterd_arch cfg (len s) s (version s) acc (nz_cols d a) ord decs din = Panic p (s1, recs, ds, ord1, stp, din1) ->
  iterd_world cfg d (a :: ar) (s :: wr) (Some acc :: pr) ord decs din = Panic p (s1 :: wr, recs, ds, din1).
Proof. exact iterd_world_panic. Qed.

(** Non-vacuity: the hypotheses hold of a concrete three-entity storage, and a loop with decisions
    Continue, ContinueDestroy, Break visits 515, 259, 3 (reverse dense order), removes 259 only, and
    hands the third visit a direct handle with the version the removal produced. *)
Definition c07_ad : darch := DA 3%N 0 [DC 0%N 0; DC 1%N 1].
Definition c07_acc : list access := [AEnt; ACol 0 false false; ADir].
Example C07_hypotheses_hold : SInv c07_ad ex3 /\ wf_access c07_ad c07_acc.
Proof. split; [split_and!; [exact ex3_inv|reflexivity|reflexivity]|]. repeat constructor. Qed.
Example C07_concrete_loop :
  match iterd_arch ex_cfg (len ex3) ex3 (version ex3) c07_acc 2%N 0 [DContinue; DContinueDestroy; DBreak] 0%N with
  | Ok (s1, recs, ds, ord1, stp, _) _ =>
      ents s1 = [(3, 1); (515, 1)]%N /\ cols s1 = [[10; 30]; [11; 31]]%N /\ ds = [(515, 1); (259, 1); (3, 2)]%N /\ ord1 = 3 /\ stp = SBreak
  | _ => False
  end.
Proof. vm_compute. repeat split; reflexivity. Qed.

(** ... and a loop whose second closure call panics after the first visit flagged its entity: two
    visits (515, 259), 515 is gone, 259 and 3 remain. *)
Example C07_concrete_panicking_loop :
  match iterd_arch ex_cfg (len ex3) ex3 (version ex3) c07_acc 2%N 0 [DContinueDestroy; DClosurePanic; DContinue] 0%N with
  | Panic p (s1, recs, ds, ord1, stp, _) =>
      p = PClosure /\ ents s1 = [(3, 1); (259, 1)]%N /\ cols s1 = [[10; 20]; [11; 21]]%N /\ ord1 = 2 /\ stp = SPanic /\ length recs = 2
  | _ => False
  end.
Proof. vm_compute. repeat split; reflexivity. Qed.
