(** C01  A handle resolves iff its entity is alive; stale handles never resolve.
    Storage level (one archetype, every reachable representation-invariant state, every issue
    history that satisfies the ghost bound [Hist], which creates and destroys maintain).
    Statements only; proofs in proofs/Storage*.v. *)
From Coq Require Import NArith.
From stdpp Require Import base list.
From Gecs Require Import Prim ExtrBits ExtrVersion Storage VersionFacts StorageInv StorageResolve StorageHist StorageOps Examples.
Local Open Scope nat_scope.

(** An issued handle is accepted by the slot lookup exactly when it is the handle stored in the
    dense array (i.e. its entity is alive), and then it designates that very position. *)
Theorem C01_issued_accepted_iff_alive : forall cfg s iss e, Inv s -> Hist s iss -> e ∈ iss -> key32 e ->
  (exists si d, resolve_entity cfg s e = ROk (Some (si, d))) <-> (exists d, ents s !! d = Some e).
Proof. exact issued_accepted_iff_stored. Qed.

Theorem C01_accepted_designates_itself : forall cfg s h si d, Inv s -> key32 h -> key_arch_id (fst h) = aid s ->
  resolve_entity cfg s h = ROk (Some (si, d)) -> ents s !! d = Some h.
Proof. intros cfg s h si d HI. exact (resolve_entity_exact cfg s HI h si d). Qed.

Theorem C01_alive_accepted : forall cfg s d e, Inv s -> ents s !! d = Some e ->
  resolve_entity cfg s e = ROk (Some (eslot e, d)).
Proof. intros cfg s d e HI. exact (resolve_entity_complete cfg s HI d e). Qed.

(** Once its slot generation has moved on a handle is rejected: cleanly, in every configuration. *)
Theorem C01_stale_rejected : forall cfg s e x, Inv s -> key32 e -> eslot e < cap s ->
  slots s !! eslot e = Some x -> (snd e < s_ver x)%N -> resolve_entity cfg s e = ROk None.
Proof. exact stale_rejected. Qed.

(** The ghost bound is an invariant: creation (with or without growth) extends it by the new
    handle, destruction keeps it and un-stores exactly the destroyed handle. *)
Theorem C01_history_create : forall cfg s iss vs h x, Inv s -> Hist s iss -> len s < cap s -> head s = Free h ->
  slots s !! h = Some x -> sidx_is_free (s_idx x) = true ->
  Hist (created_state cfg s h x vs) (iss ++ [created_handle s h x]).
Proof. exact hist_created. Qed.

Theorem C01_history_grow : forall s iss n, Inv s -> Hist s iss -> cap s <= n -> Hist (grown s n) iss.
Proof. exact hist_grown. Qed.

Theorem C01_history_destroy : forall cfg s iss si d e va vs', Inv s -> Hist s iss -> ents s !! d = Some e -> eslot e = si ->
  (snd e < vs')%N -> in_ver va -> in_ver vs' ->
  Hist (destroyed_state cfg s si d e (last_ent s e) va vs') iss /\
  (forall i, ents (destroyed_state cfg s si d e (last_ent s e) va vs') !! i <> Some e).
Proof. exact hist_destroyed. Qed.

(** Non-vacuity: a concrete storage after three creates (one growth) and one destroy. *)
Example C01_nonvacuous : Inv ex4 /\ len ex4 = 2 /\ ents ex4 = [(515, 1); (259, 1)]%N.
Proof. split; [exact ex4_inv|]. split; [exact (proj1 ex4_shape)|exact (proj1 (proj2 ex4_shape))]. Qed.

Check C01_issued_accepted_iff_alive : forall cfg s iss e, Inv s -> Hist s iss -> e ∈ iss -> key32 e ->
  (exists si d, resolve_entity cfg s e = ROk (Some (si, d))) <-> (exists d, ents s !! d = Some e).
Check C01_stale_rejected : forall cfg s e x, Inv s -> key32 e -> eslot e < cap s ->
  slots s !! eslot e = Some x -> (snd e < s_ver x)%N -> resolve_entity cfg s e = ROk None.
