(** C01  A handle resolves iff its entity is alive; stale handles never resolve.
    Storage level (one archetype, every reachable representation-invariant state, every issue
    history that satisfies the ghost bound [Hist], which creates and destroys maintain).
    Statements only; proofs in proofs/Storage*.v. *)
From Coq Require Import NArith.
From stdpp Require Import base list.
From Gecs Require Import Prim ExtrBits ExtrVersion Storage VersionFacts StorageInv StorageResolve StorageHist StorageOps Examples.
Local Open Scope nat_scope.

(** An issued handle is accepted by the slot lookup exactly when it is the handle stored in the
    dense array (i.e. its entity is alive), and then it designates that very position. *)
Theorem C01_issued_accepted_iff_alive : forall cfg s iss e, Inv s -> Hist s iss -> e ∈ iss -> key32 e ->
  (exists si d, resolve_entity cfg s e = ROk (Some (si, d))) <-> (exists d, ents s !! d = Some e).
Proof. exact issued_accepted_iff_stored. Qed.

Theorem C01_accepted_designates_itself : forall cfg s h si d, Inv s -> key32 h -> key_arch_id (fst h) = aid s ->
  resolve_entity cfg s h = ROk (Some (si, d)) -> ents s !! d = Some h.
Proof. intros cfg s h si d HI. exact (resolve_entity_exact cfg s HI h si d). Qed.

Theorem C01_alive_accepted : forall cfg s d e, Inv s -> ents s !! d = Some e ->
  resolve_entity cfg s e = ROk (Some (eslot e, d)).
Proof. intros cfg s d e HI. exact (resolve_entity_complete cfg s HI d e). Qed.

(** Once its slot generation has moved on a handle is rejected: cleanly, in every configuration. *)
Theorem C01_stale_rejected : forall cfg s e x, Inv s -> key32 e -> eslot e < cap s ->
  slots s !! eslot e = Some x -> (snd e < s_ver x)%N -> resolve_entity cfg s e = ROk None.
Proof. exact stale_rejected. Qed.

(** The ghost bound is an invariant: creation (with or without growth) extends it by the new
    handle, destruction keeps it and un-stores exactly the destroyed handle. *)
Theorem C01_history_create : forall cfg s iss vs h x, Inv s -> Hist s iss -> len s < cap s -> head s = Free h ->
  slots s !! h = Some x -> sidx_is_free (s_idx x) = true ->
  Hist (created_state cfg s h x vs) (iss ++ [created_handle s h x]).
Proof. exact hist_created. Qed.

Theorem C01_history_grow : forall s iss n, Inv s -> Hist s iss -> cap s <= n -> Hist (grown s n) iss.
Proof. exact hist_grown. Qed.

Theorem C01_history_destroy : forall cfg s iss si d e va vs', Inv s -> Hist s iss -> ents s !! d = Some e -> eslot e = si ->
  (snd e < vs')%N -> in_ver va -> in_ver vs' ->
  Hist (destroyed_state cfg s si d e (last_ent s e) va vs') iss /\
  (forall i, ents (destroyed_state cfg s si d e (last_ent s e) va vs') !! i <> Some e).
Proof. exact hist_destroyed. Qed.

(** Non-vacuity: a concrete storage after three creates (one growth) and one destroy. *)
Example C01_nonvacuous : Inv ex4 /\ len ex4 = 2 /\ ents ex4 = [(515, 1); (259, 1)]%N.
Proof. split; [exact ex4_inv|]. split; [exact (proj1 ex4_shape)|exact (proj1 (proj2 ex4_shape))]. Qed.

Check C01_issued_accepted_iff_alive : forall cfg s iss e, Inv s -> Hist s iss -> e ∈ iss -> key32 e ->
  (exists si d, resolve_entity cfg s e = ROk (Some (si, d))) <-> (exists d, ents s !! d = Some e).
Check C01_stale_rejected : forall cfg s e x, Inv s -> key32 e -> eslot e < cap s ->
  slots s !! eslot e = Some x -> (snd e < s_ver x)%N -> resolve_entity cfg s e = ROk None.

(* ---------------------------------------------------------------- whole histories *)
From Gecs Require Import Query World Borrow Run WorldInv LoopFacts HistRun.

(** One storage, every sequence of creations (with or without growth), create_within_capacity,
    destructions with any key of either kind, and transitions that leave slots and dense handles
    alone: a handle that has left the dense array never returns and is rejected by every later lookup. *)
Theorem C01_stale_forever_storage : forall cfg s1 s2 s3 e, wrapping cfg = false -> sreach true true cfg s1 -> key32 e ->
  e ∈ ents s1 -> esteps true true cfg s1 s2 -> e ∉ ents s2 -> esteps true true cfg s2 s3 ->
  e ∉ ents s3 /\ resolve_entity cfg s3 e = ROk None.
Proof. exact (stale_forever true true). Qed.

(** The run language: every operation moves every storage of every persisting world by such transitions. *)
Theorem C01_every_operation_is_a_sequence_of_elementary_transitions : forall cfg d qs st o,
  wf_decl d -> wf_op d o -> RInv d st -> hist_ok_step st o = true ->
  match step cfg d qs st o with Some (st', _) => ltrans true true cfg (worlds st) (worlds st') | None => True end.
Proof. intros. apply (step_trans true true); try done. apply flags_ok_true. Qed.

(** Whole histories of the run language (several worlds, clones, drops, forged and foreign keys,
    queries, ecs_iter_destroy!, panics): stale forever. *)
Theorem C01_stale_forever : forall cfg d qs ops1 ops2 ops3 st1 st2 st3 i a w1 w2 w3 s1 s2 s3 e,
  hist_case cfg d qs (ops1 ++ ops2 ++ ops3) = true ->
  run_to cfg d qs rs0 ops1 = Some st1 -> run_to cfg d qs st1 ops2 = Some st2 -> run_to cfg d qs st2 ops3 = Some st3 ->
  worlds st1 !! i = Some (Some w1) -> worlds st2 !! i = Some (Some w2) -> worlds st3 !! i = Some (Some w3) ->
  w1 !! a = Some s1 -> w2 !! a = Some s2 -> w3 !! a = Some s3 ->
  key32 e -> e ∈ ents s1 -> e ∉ ents s2 ->
  e ∉ ents s3 /\ resolve_entity cfg s3 e = ROk None.
Proof. exact run_stale_forever. Qed.

(** ... and accepted exactly while stored, designating itself. *)
Theorem C01_accepted_iff_stored : forall cfg d qs ops1 ops2 st1 st2 i a w1 w2 s1 s2 e,
  hist_case cfg d qs (ops1 ++ ops2) = true ->
  run_to cfg d qs rs0 ops1 = Some st1 -> run_to cfg d qs st1 ops2 = Some st2 ->
  worlds st1 !! i = Some (Some w1) -> worlds st2 !! i = Some (Some w2) -> w1 !! a = Some s1 -> w2 !! a = Some s2 ->
  key32 e -> e ∈ ents s1 ->
  ((exists si dd, resolve_entity cfg s2 e = ROk (Some (si, dd))) <-> e ∈ ents s2) /\
  (forall si dd, resolve_entity cfg s2 e = ROk (Some (si, dd)) -> ents s2 !! dd = Some e).
Proof. exact run_accepted_iff_stored. Qed.

(** Non-vacuity: a history that creates two entities, destroys the first, and reuses its slot twice. *)
Definition c01_decl : wdecl := WD [DA 0%N 0 [DC 0%N 0]; DA 3%N 1 [DC 0%N 0; DC 1%N 1]; DA 4%N 2 [DC 0%N 1; DC 1%N 2; DC 2%N 3]; DA 200%N 3 [DC 0%N 0; DC 1%N 1; DC 2%N 2; DC 3%N 4; DC 4%N 5; DC 5%N 6; DC 6%N 7; DC 7%N 8]] [3].
Definition c01_ops1 : list op := [ONew [2; 2; 2; 2]; OCreate 0 1%N; OCreate 0 2%N].
Definition c01_ops2 : list op := [ODestroy LWorld KEnt TAny (RIssued 0)].
Definition c01_ops3 : list op := [OCreate 0 3%N; ODestroy (LArch 0) KEnt (TChecked 0) (RIssued 2); OCreate 0 4%N; OIterD 0 [DContinueDestroy]; OCreate 0 5%N].
Definition c01_ents (ops : list op) : option (list handle) :=
  st ← run_to (Config false true true) c01_decl [[QP [] false PEntAny true]] rs0 ops; w ← mjoin (worlds st !! 0); s ← w !! 0; Some (ents s).
Example C01_history_instance :
  hist_case (Config false true true) c01_decl [[QP [] false PEntAny true]] (c01_ops1 ++ c01_ops2 ++ c01_ops3) = true /\
  c01_ents c01_ops1 = Some [(0, 1); (256, 1)]%N /\ c01_ents (c01_ops1 ++ c01_ops2) = Some [(256, 1)]%N /\
  c01_ents (c01_ops1 ++ c01_ops2 ++ c01_ops3) = Some [(256, 1); (0, 4)]%N.
Proof. vm_compute. repeat split; reflexivity. Qed.

(* ---------------------------------------------------------------- every lookup path, as observed *)
From Gecs Require Import ObsFacts.
Local Open Scope nat_scope.

(** The observation the run language prints for a probe - the numbers the harness prints for the same
    operation on the real gecs, compared on every run - in closed form.  World level (contains,
    to_direct, the two find queries; for typed keys also view and borrow): a stored handle is accepted
    on every path, each showing that same handle, its dense position, its own row and the current
    direct handle; a handle of this archetype that is not stored is reported absent on every path. *)
Theorem C01_every_world_path_accepts_a_stored_handle : forall cfg s, Inv s -> forall typed d e row,
  ents s !! d = Some e -> abs_at s d = Some (e, row) ->
  probe_storage_world cfg typed KEnt s e = ROk (acc_world typed s d e row).
Proof. exact probe_world_stored. Qed.

Theorem C01_every_world_path_rejects_an_unstored_handle : forall cfg s, Inv s -> forall typed e,
  key32 e -> key_arch_id (fst e) = aid s -> eslot e < cap s -> e ∉ ents s ->
  probe_storage_world cfg typed KEnt s e = ROk (rej_world typed).
Proof. exact probe_world_unstored. Qed.

(** Archetype level (contains, resolve, to_direct, view, borrow). *)
Theorem C01_every_archetype_path_accepts_a_stored_handle : forall cfg s, Inv s -> forall d e row,
  ents s !! d = Some e -> abs_at s d = Some (e, row) ->
  probe_storage_arch cfg KEnt s e = ROk (acc_arch s d e row).
Proof. exact probe_arch_stored. Qed.

Theorem C01_every_archetype_path_rejects_an_unstored_handle : forall cfg s, Inv s -> forall e,
  key32 e -> key_arch_id (fst e) = aid s -> eslot e < cap s -> e ∉ ents s ->
  probe_storage_arch cfg KEnt s e = ROk rej_arch.
Proof. exact probe_arch_unstored. Qed.

(** The probe operation itself, in any reachable state, with a dynamically typed handle: dispatched by
    the packed archetype id at world level ... *)
Theorem C01_probe_observation_world : forall cfg d qs st w r e a s, RInv d st ->
  cur_world st = Some w -> get_href st KEnt r = Some e -> snd e <> 0%N -> key32 e ->
  find_arch (wd_archs d) (key_arch_id (fst e)) = Some a -> w !! a = Some s -> eslot e < cap s ->
  step cfg d qs st (OProbe LWorld KEnt TAny r) =
    Some (st, match list_find (fun x => x = e) (ents s) with
              | Some (dd, _) => acc_world false s dd e (default [] (snd <$> abs_at s dd))
              | None => rej_world false
              end).
Proof. exact step_probe_any_world. Qed.

(** ... and presented to one archetype: decided by that archetype when the handle carries its id, absent
    on every path when it carries another archetype's id. *)
Theorem C01_probe_observation_archetype : forall cfg d qs st w r e b bd s, RInv d st ->
  cur_world st = Some w -> get_href st KEnt r = Some e -> snd e <> 0%N -> key32 e ->
  wd_archs d !! b = Some bd -> w !! b = Some s -> (da_id bd = key_arch_id (fst e) -> eslot e < cap s) ->
  step cfg d qs st (OProbe (LArch b) KEnt TAny r) =
    Some (st, if decide (da_id bd = key_arch_id (fst e)) then
                match list_find (fun x => x = e) (ents s) with
                | Some (dd, _) => acc_arch s dd e (default [] (snd <$> abs_at s dd))
                | None => rej_arch
                end
              else rej_arch).
Proof. exact step_probe_any_arch. Qed.

(** Non-vacuity: after the history above, handle (256, 1) is stored at position 0 of archetype 0 
    and every world-level path shows exactly that; the destroyed (0, 1) is absent on every path. *)
Example C01_probe_instance :
  (st ← run_to (Config false true true) c01_decl [[QP [] false PEntAny true]] rs0 (c01_ops1 ++ c01_ops2 ++ c01_ops3);
   snd <$> step (Config false true true) c01_decl [] st (OProbe LWorld KEnt TAny (RIssued 1))) =
    Some [1; 1; 0; 4; 1; 256; 1; 0; 4; 1; 256; 1; 0; 4]%N /\
  (st ← run_to (Config false true true) c01_decl [[QP [] false PEntAny true]] rs0 (c01_ops1 ++ c01_ops2 ++ c01_ops3);
   snd <$> step (Config false true true) c01_decl [] st (OProbe LWorld KEnt TAny (RIssued 0))) = Some [0; 0; 0; 0]%N.
Proof. vm_compute. split; reflexivity. Qed.

(* ---------------------------------------------------------------- model against the specification oracle *)
From Gecs Require Import Spec OracleFacts.

(** The specification oracle (spec/Spec.v) decides C01 on implementation traces by running its path checks
    on every probe observation against what it believes about the handle.  Whenever that belief is the
    truth about the model's storage ([belief_true]: the handle is believed live with row r exactly when it
    is stored with row r), the oracle accepts the observation the model prints for a world-level probe
    with a dynamically typed issued handle, in every reachable state, and leaves its own state unchanged:
    on this operation the model satisfies the oracle's reading of the property, and the oracle raises no
    alarm on code that behaves like the model.  (That the belief stays true along a history is not proved;
    it is exercised by every run of the correspondence check.) *)
Theorem C01_the_oracle_accepts_the_model_on_probes : forall cfg d qs st sst w sw i e a0 a s x, RInv d st ->
  cur_world st = Some w -> issued st !! i = Some e -> snd e <> 0%N -> key32 e ->
  find_arch (wd_archs d) (key_arch_id (fst e)) = Some a -> w !! a = Some s -> eslot e < cap s ->
  cur_sworld sst = Some sw -> s_issued sst !! i = Some (e, a0) -> sw !! a = Some x -> belief_true s x e ->
  exists obs, step cfg d qs st (OProbe LWorld KEnt TAny (RIssued i)) = Some (st, obs) /\
              spec_step cfg d qs sst (OProbe LWorld KEnt TAny (RIssued i)) obs = inr sst.
Proof. exact probe_world_oracle_accepts. Qed.

(** World bookkeeping (new / switch / drop / arm a fault): accepted in every state, unconditionally. *)
Theorem C01_the_oracle_accepts_the_model_on_bookkeeping : forall cfg d qs st sst o,
  match o with ONew _ | OSwitch _ | ODrop _ | OFault _ _ => True | _ => False end ->
  match step cfg d qs st o with
  | Some (_, obs) => exists sst', spec_step cfg d qs sst o obs = inr sst'
  | None => True
  end.
Proof. exact bookkeeping_steps_accepted. Qed.

(** ... and on probes presented to one archetype, including a handle carrying another archetype's id
    (absence on every path, C03). *)
Theorem C01_the_oracle_accepts_the_model_on_archetype_probes : forall cfg d qs st sst w sw i e a0 b bd s x, RInv d st ->
  cur_world st = Some w -> issued st !! i = Some e -> snd e <> 0%N -> key32 e ->
  wd_archs d !! b = Some bd -> w !! b = Some s -> (da_id bd = key_arch_id (fst e) -> eslot e < cap s) ->
  cur_sworld sst = Some sw -> s_issued sst !! i = Some (e, a0) -> sw !! b = Some x ->
  (da_id bd = key_arch_id (fst e) -> belief_true s x e) ->
  exists obs, step cfg d qs st (OProbe (LArch b) KEnt TAny (RIssued i)) = Some (st, obs) /\
              spec_step cfg d qs sst (OProbe (LArch b) KEnt TAny (RIssued i)) obs = inr sst.
Proof. exact probe_arch_oracle_accepts. Qed.

(* ---------------------------------------------------------------- the model refines the oracle: whole histories *)
From Gecs Require Import OracleSim.

(** For every declaration with distinct 8-bit archetype ids, every capacity list the library accepts and
    EVERY sequence of creations (create and create_within_capacity, any archetype, with growth, refusal
    at capacity and the capacity-limit panic),
    destructions at world level or through an archetype with any issued handle (live, stale, of another
    archetype, or an out-of-range reference; including the generation-overflow panic), to_direct, writes of any
    component through the six direct write paths (view, borrow, slice, borrowed slice, all-slices, iter_mut) and probes at
    world and archetype level with any issued handle, len / capacity / is_empty / version queries and whole-archetype reads through the five read-all paths, without wrapping_version: the specification oracle - the executable
    reading of C01 (accepted iff alive, designates itself), C02 (own latest values, destroy hands back the
    row), C03/C14 (ids), C08 (no handle twice) and C12 (limit) that decides these properties on
    implementation traces - accepts the whole run of the model.  The proof is a simulation: the relation
    [Rel] (the oracle's live list of every archetype is exactly the storage's set of rows, its issue
    table is the model's, the ghost history [Hist] bounds every issued handle) is kept by every step
    ([rel_step]).  So on this language the model satisfies the oracle's reading of these properties for
    all histories, and the oracle raises no alarm on code that behaves like the model. *)
Theorem C01_the_model_refines_the_oracle_on_the_core_language : forall cfg d qs caps w ops,
  wrapping cfg = false -> wf_decl d -> NoDup (da_id <$> wd_archs d) ->
  length caps = length (wd_archs d) -> new_world (wd_archs d) caps = Ok w tt ->
  forallb (l0_op d) ops = true ->
  spec_check cfg d qs (ONew caps :: ops) (run cfg d qs (ONew caps :: ops)) = None.
Proof. exact core_language_refines_the_oracle. Qed.

(** Non-vacuity: a history of the core language (creations with slot reuse, stale and foreign handles, an
    out-of-range reference, world-level and archetype-level destroys and probes). *)
Definition c01_core_ops : list op :=
  [OCreate 0 1%N; OCreate 0 2%N; ODestroy (LArch 0) KEnt TAny (RIssued 0); OProbe LWorld KEnt TAny (RIssued 0);
   OCreate 0 3%N; OProbe (LArch 0) KEnt TAny (RIssued 2); ODestroy (LArch 1) KEnt TAny (RIssued 2);
   ODestroy (LArch 0) KEnt TAny (RIssued 2); OCreate 1 4%N; OProbe LWorld KEnt TAny (RIssued 3); OProbe (LArch 0) KEnt TAny (RIssued 3);
   ODestroy (LArch 0) KEnt TAny (RIssued 9); ODestroy LWorld KEnt TAny (RIssued 3); ODestroy LWorld KEnt TAny (RIssued 3);
   OProbe LWorld KEnt TAny (RIssued 3); OCreate 1 5%N; OCreateW 1 6%N; OCreateW 1 7%N; OCreateW 0 8%N; OProbe (LArch 1) KEnt TAny (RIssued 5);
   OToDirect LWorld KEnt TAny (RIssued 5); OToDirect (LArch 0) KEnt TAny (RIssued 5); OToDirect LWorld KEnt TAny (RIssued 0); OToDirect (LArch 1) KEnt TAny (RIssued 44);
   OLen 0; OLen 1; OLen 7; OCreate 0 9%N; OCreate 0 10%N; OCreate 0 11%N; OLen 0; OCreateW 0 12%N; OLen 0; OReadAll RIter 0; OReadAll RSlices 1; OReadAll RBSlice 3].
Example C01_core_language_instance :
  forallb (l0_op c01_decl) c01_core_ops = true /\
  spec_check (Config false true true) c01_decl [] (ONew [2; 2; 2; 2] :: c01_core_ops)
             (run (Config false true true) c01_decl [] (ONew [2; 2; 2; 2] :: c01_core_ops)) = None /\
  nth 4 (run (Config false true true) c01_decl [] (ONew [2; 2; 2; 2] :: c01_core_ops)) [] = [0; 0; 0; 0]%N.
Proof. vm_compute. repeat split; reflexivity. Qed.
