(** C18  Generated code is unsafe-free and unsound client programs do not compile (partial).
    Proved here: facts about gecs's own tokens and field types, over tables translated from the
    sources on this run.  Validated, not proved: rustc's verdict on the corpus of minimal unsound
    programs and their sound twins (corpus_c18/), and that every expansion produced by the macro
    crate consists of template tokens, generated identifiers and user tokens (stream T1).
    A proof about rustc's borrow checker and trait solver is out of reach here (see DESIGN.md). *)
From Coq Require Import String List Bool.
From Gecs Require Import ExtrTokens Tokens.
Import ListNotations.
Open Scope string_scope.

(** (a) No template of any generator contains a forbidden token (finite list, evaluated by the kernel). *)
Theorem C18_templates_have_no_forbidden_token : forallb (fun t => negb (is_forbidden t)) template_idents = true.
Proof. vm_compute. reflexivity. Qed.

Theorem C18_templates_have_no_forbidden_token_forall : forall t, In t template_idents -> is_forbidden t = false.
Proof.
  intros t Ht. pose proof (proj1 (forallb_forall _ _) C18_templates_have_no_forbidden_token t Ht) as H.
  apply negb_true_iff in H. exact H.
Qed.

(** Generated identifiers: apart from the bare "{}" pattern (the user's own name, or its snake-case
    form), no format_ident! pattern can spell a forbidden token whatever fills its holes. *)
Theorem C18_generated_identifiers_cannot_spell_forbidden :
  forallb (fun p => String.eqb p "{}" || forallb (fun f => negb (can_spell p f)) forbidden) ident_patterns = true.
Proof. vm_compute. reflexivity. Qed.

(** (b) Handles are Send + Sync whatever the component types are, and Copy. *)
Theorem C18_handles_send_sync_copy : forall comp,
  forallb (fun n => has_send 8 comp (TStruct n) && has_sync 8 comp (TStruct n)) ["Entity"; "EntityDirect"; "EntityAny"; "EntityDirectAny"] = true
  /\ handles_are_copy = true.
Proof. intros [|]; split; vm_compute; reflexivity. Qed.

(** A storage (hence an archetype, hence a world: structs of them) is never Sync, and is Send exactly
    when all its component types are. *)
Theorem C18_world_never_sync : forall comp, has_sync 8 comp (TStruct "Storage") = false.
Proof. intros [|]; vm_compute; reflexivity. Qed.

Theorem C18_world_send_iff_components_send : forall comp, has_send 8 comp (TStruct "Storage") = comp.
Proof. intros [|]; vm_compute; reflexivity. Qed.

(** The only `unsafe impl`s of the runtime crate are DataPtr's, bounded on T; iterators tie their
    items to a mutable borrow of the archetype. *)
Theorem C18_unsafe_impls_are_bounded : dataptr_send_if_t_send = true /\ dataptr_sync_if_t_sync = true /\
  iterators_borrow_archetype_mutably = true.
Proof. repeat split. Qed.

(** The only transmutes of the runtime crate are the four reference-to-reference handle conversions of
    entity.rs, and each ties the lifetime of the reference it returns to the one it was given (a
    conversion with an elided output lifetime would let safe code keep a handle reference across a
    structural change, or hold two live `&mut` to one handle: corpus pairs 17 and 18). *)
Theorem C18_reference_conversions_tie_lifetimes : ref_conversions_tie_lifetimes = true.
Proof. reflexivity. Qed.

(** can_spell is not vacuous: it does recognise spellings. *)
Example C18_can_spell_examples :
  can_spell "{}" "unsafe" = true /\ can_spell "un{}" "unsafe" = true /\ can_spell "{}Components" "unsafe" = false /\
  can_spell "get_slice_{}" "get_slice_3" = true /\ can_spell "__cfg_ecs_{}_{}" "__cfg_ecs_world_2" = true.
Proof. vm_compute. repeat split. Qed.
