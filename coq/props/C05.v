(** C05  Queries act on exactly the archetypes whose component set satisfies them. *)
From Coq Require Import NArith.
From stdpp Require Import base list.
From Gecs Require Import Prim Query QuerySpec MacroData MacroFacts.
Local Open Scope nat_scope.

(** For every world and every well-formed parameter list: the generators emit an arm for archetype i
    exactly when it satisfies the declarative reading [sat] (every named component present, exactly one
    alternative of each OneOf present, name equal to every Entity<A>/EntityDirect<A> parameter). *)
Theorem C05_arms_are_the_satisfying_archetypes : forall w ps r, wf_query ps -> bind_query w ps = inr r ->
  length r = length w /\ forall i a, w !! i = Some a -> (exists b, r !! i = Some (Some b)) <-> sat a ps = true.
Proof. exact bind_query_sat. Qed.

(** Each parameter is bound to that archetype's own column: components and entity parameters are
    kept as written, a OneOf becomes the unique alternative the archetype contains. *)
Theorem C05_parameter_binding : forall a p, p_enabled p = true ->
  (match p_type p with POneOf _ => p_cfgs p = [] | _ => True end) ->
  match bind_step a p with
  | inr (Some q) => sat_param a p = true /\
      match p_type p with
      | POneOf cs => exists c, present a cs = [c] /\ q = QP (p_cfgs p) (p_mut p) (PComp c) (p_enabled p)
      | _ => q = p
      end
  | inr None => sat_param a p = false
  | inl e => exists cs c1 c2 rest, p_type p = POneOf cs /\ present a cs = c1 :: c2 :: rest /\ e = EAmbiguous (da_name a) c1 c2
  end.
Proof. exact bind_step_sat. Qed.

(** A OneOf matching two components of one archetype is rejected at compile time (for any archetype of
    the world, also one the other parameters exclude), and binding errors arise only in this way. *)
Theorem C05_ambiguous_oneof_is_rejected : forall w ps e, wf_query ps -> bind_query w ps = inl e ->
  exists a p cs c1 c2 rest, a ∈ w /\ p ∈ ps /\ p_type p = POneOf cs /\ present a cs = c1 :: c2 :: rest /\ e = EAmbiguous (da_name a) c1 c2.
Proof. exact bind_query_err. Qed.

(** A query that can match no archetype is rejected at compile time, and only then. *)
Theorem C05_no_match_is_rejected : forall w ps, wf_query ps ->
  generate_query w ps = inl GNoMatch <-> (exists r, bind_query w ps = inr r) /\ forall a, a ∈ w -> sat a ps = false.
Proof. exact generate_query_nomatch. Qed.

Example C05_nonvacuous :
  let w := [DA 0 0 [DC 0 0]; DA 3 1 [DC 0 0; DC 1 1]; DA 4 2 [DC 0 1; DC 1 2]] in
  generate_query w [QP [] true (PComp 1) true; QP [] false PEntWild true]
  = inr [None; Some [QP [] true (PComp 1) true; QP [] false PEntWild true]; Some [QP [] true (PComp 1) true; QP [] false PEntWild true]].
Proof. vm_compute. reflexivity. Qed.
