(** C12  len and capacity are exact; creation respects capacity and the 2^24 limit. *)
From Coq Require Import NArith.
From stdpp Require Import base list.
From Gecs Require Import Prim ExtrBits ExtrVersion ExtrStorage Storage BitsFacts StorageInv StorageOps Examples.
Local Open Scope nat_scope.

(** with_capacity(n): panics iff n exceeds 2^24, otherwise capacity is exactly n. *)
Theorem C12_with_capacity_limit : forall id ncols c,
  (exists s, with_capacity id ncols c = Panic PCapExceed s) <-> (MAX_DATA_CAPACITY < N.of_nat c)%N.
Proof. exact with_capacity_panics_iff. Qed.

Theorem C12_with_capacity_exact : forall id ncols c s, (id < 2^8)%N -> with_capacity id ncols c = Ok s tt ->
  Inv s /\ cap s = c /\ len s = 0.
Proof.
  intros id ncols c s Hid H. split; [exact (with_capacity_inv id ncols c s Hid H)|].
  unfold with_capacity in H. destruct (with_capacity_panics (N.of_nat c)); [discriminate|]. injection H as <-. split; reflexivity.
Qed.

Theorem C12_limit_is_2_24 : MAX_DATA_CAPACITY = 16777216%N.
Proof. exact max_cap_val. Qed.

(** create: below capacity it leaves the capacity alone; when full it grows (strictly, never beyond
    2^24); at 2^24 entities it panics with the storage unchanged. len goes up by exactly one. *)
Theorem C12_create : forall cfg s vs, Inv s -> length vs = length (cols s) -> push_outcome cfg s vs (push cfg s vs).
Proof. intros cfg s vs HI Hvs. exact (proj1 (push_spec cfg s vs HI Hvs)). Qed.

Theorem C12_growth_formula : forall c, (c < MAX_DATA_CAPACITY)%N ->
  grow_capacity c = N.min ((c + 1) * 2) MAX_DATA_CAPACITY /\ (c < grow_capacity c <= MAX_DATA_CAPACITY)%N.
Proof. exact grow_capacity_spec. Qed.

(** create_within_capacity succeeds exactly when len < capacity, never changes the capacity, and
    otherwise leaves the storage unchanged (returning its argument). *)
Theorem C12_create_within : forall cfg s vs, Inv s -> length vs = length (cols s) ->
  if decide (len s < cap s)
  then exists h x, push_within cfg s vs = Ok (created_state cfg s h x vs) (Some (created_handle s h x)) /\
                   Inv (created_state cfg s h x vs) /\ cap (created_state cfg s h x vs) = cap s /\
                   head s = Free h /\ slots s !! h = Some x
  else push_within cfg s vs = Ok s None.
Proof. exact push_within_spec. Qed.

(** The invariant carries: len <= capacity <= 2^24, the dense arrays hold exactly len entries, and
    the free list holds exactly capacity - len slots (so any storage can be refilled to capacity). *)
Theorem C12_invariant_accounts : forall s, Inv s ->
  len s <= cap s /\ (N.of_nat (cap s) <= MAX_DATA_CAPACITY)%N /\ length (ents s) = len s /\
  exists fl, chain (slots s) (head s) fl /\ NoDup fl /\ length fl = cap s - len s.
Proof. intros s HI. split; [exact (i_le s HI)|]. split; [exact (i_cap s HI)|]. split; [exact (i_lents s HI)|exact (i_free s HI)]. Qed.

Theorem C12_destroy_len : forall cfg s si d e le va vs',
  len (destroyed_state cfg s si d e le va vs') = len s - 1 /\ cap (destroyed_state cfg s si d e le va vs') = cap s.
Proof. intros. split; reflexivity. Qed.

Example C12_nonvacuous : Inv ex3 /\ len ex3 = 3 /\ cap ex3 = 4.
Proof. split; [exact ex3_inv|]. split; [exact (proj1 ex3_shape)|exact (proj1 (proj2 ex3_shape))]. Qed.

(** Filling by create alone from capacity 0: 24 growths, strictly increasing, the last one landing
    exactly on the limit, where growth is refused (and create panics, [push_overflow]).  The check
    compares this sequence with the capacities the implementation actually passes through while it
    creates 16,777,216 entities. *)
Theorem C12_growth_reaches_the_limit :
  let g := growth_seq 64 0 in
  length g = 24 /\ Forall (fun p => (fst p < snd p)%N) g /\ (snd <$> g) !! 23 = Some MAX_DATA_CAPACITY /\
  grow_refused MAX_DATA_CAPACITY = true /\ (forall c, (c < MAX_DATA_CAPACITY)%N -> grow_refused c = false).
Proof.
  split_and!; [reflexivity|by vm_compute; repeat constructor|reflexivity|reflexivity|].
  intros c Hc. unfold grow_refused. apply N.leb_gt. exact Hc.
Qed.

(* ---------------------------------------------------------------- whole histories *)
From Gecs Require Import Query World Borrow Run WorldInv LoopFacts HistRun DirectHist.

(** For every history of the run language, in every archetype of every persisting world: capacity()
    never decreases, len() is the number of stored (live) handles and never exceeds capacity(). *)
Theorem C12_capacity_never_decreases_len_exact : forall cfg d qs ops1 ops2 st1 st2 i a w1 w2 s1 s2,
  hist_case cfg d qs (ops1 ++ ops2) = true ->
  run_to cfg d qs rs0 ops1 = Some st1 -> run_to cfg d qs st1 ops2 = Some st2 ->
  worlds st1 !! i = Some (Some w1) -> worlds st2 !! i = Some (Some w2) -> w1 !! a = Some s1 -> w2 !! a = Some s2 ->
  cap s1 <= cap s2 /\ len s2 = length (ents s2) /\ len s2 <= cap s2.
Proof. exact run_capacity_monotone. Qed.

(* ---------------------------------------------------------------- the oracle's reading, whole histories *)
From Gecs Require Import Spec OracleSim.

(** "len() always equals the number of live entities, capacity() never decreases and is at least len(),
    create_within_capacity succeeds exactly when len() < capacity() and otherwise returns its argument, create fails
    only at the limit", as the specification oracle reads it on implementation traces.  For ALL histories of the core
    language (OracleSim) the oracle accepts the whole run of the model. *)
Theorem C12_the_model_refines_the_oracle : forall cfg d qs caps w ops,
  wrapping cfg = false -> wf_decl d -> NoDup (da_id <$> wd_archs d) ->
  length caps = length (wd_archs d) -> new_world (wd_archs d) caps = Ok w tt ->
  forallb (l0_op d) ops = true ->
  spec_check cfg d qs (ONew caps :: ops) (run cfg d qs (ONew caps :: ops)) = None.
Proof. exact core_language_refines_the_oracle. Qed.
