(** C10  A panic escaping any operation leaves the world consistent and memory-safe.
    Storage level: every panic point of create and destroy (capacity overflow, slot-generation and
    archetype-version overflow, debug assertions on foreign keys). *)
From Coq Require Import NArith.
From stdpp Require Import base list.
From Gecs Require Import Prim ExtrBits ExtrVersion ExtrStorage Storage VersionFacts StorageInv StorageResolve StorageOps Examples.
Local Open Scope nat_scope.

(** create: success yields an invariant state; the capacity-overflow panic leaves the storage as it was; never UB. *)
Theorem C10_create_outcomes : forall cfg s vs, Inv s -> length vs = length (cols s) ->
  match push cfg s vs with Ok s' _ => Inv s' | Panic _ s' => s' = s | UB => False end.
Proof. intros cfg s vs HI Hvs. exact (proj2 (push_spec cfg s vs HI Hvs)). Qed.

(** destroy: a removal yields an invariant state; every panic (including both generation overflows,
    which the code now computes before it mutates anything) leaves the storage exactly as it was. *)
Theorem C10_destroy_outcomes : forall cfg k s h, Inv s -> key32 h -> destroy_result cfg k s h (destroy cfg k s h).
Proof. exact destroy_cases. Qed.

Theorem C10_destroy_overflow_state_unchanged : forall cfg s si d e, Inv s -> ents s !! d = Some e -> eslot e = si ->
  (arch_next (wrapping cfg) (version s) = None -> force_destroy cfg s si d = Panic PArchOverflow s) /\
  (forall va, arch_next (wrapping cfg) (version s) = Some va -> slot_next (wrapping cfg) (snd e) = None ->
              force_destroy cfg s si d = Panic PSlotOverflow s).
Proof.
  intros cfg s si d e HI Hd Hsi. pose proof (force_destroy_spec cfg s si d e HI Hd Hsi) as H. split.
  - intros Hn. rewrite Hn in H. exact H.
  - intros va Hva Hn. rewrite Hva, Hn in H. exact H.
Qed.

(** The order of effects this rests on is the one translated from the source on this run. *)
Theorem C10_effect_order_is_the_proved_one :
  force_destroy_prog = [DNextArch; DNextSlot; DEvent; DReadLast; DSwapEnts; DSwapCols; DAssignLast; DReleaseWith; DSetArch; DSetHead; DDecLen]
  /\ release_bumps_version = false.
Proof. split; reflexivity. Qed.
