(** C10  A panic escaping any operation leaves the world consistent and memory-safe.
    Storage level: every panic point of create and destroy (capacity overflow, slot-generation and
    archetype-version overflow, debug assertions on foreign keys). *)
From Coq Require Import NArith.
From stdpp Require Import base list.
From Gecs Require Import Prim ExtrBits ExtrVersion ExtrStorage Storage VersionFacts StorageInv StorageResolve StorageOps Examples.
Local Open Scope nat_scope.

(** create: success yields an invariant state; the capacity-overflow panic leaves the storage as it was; never UB. *)
Theorem C10_create_outcomes : forall cfg s vs, Inv s -> length vs = length (cols s) ->
  match push cfg s vs with Ok s' _ => Inv s' | Panic _ s' => s' = s | UB => False end.
Proof. intros cfg s vs HI Hvs. exact (proj2 (push_spec cfg s vs HI Hvs)). Qed.

(** destroy: a removal yields an invariant state; every panic (including both generation overflows,
    which the code now computes before it mutates anything) leaves the storage exactly as it was. *)
Theorem C10_destroy_outcomes : forall cfg k s h, Inv s -> key32 h -> destroy_result cfg k s h (destroy cfg k s h).
Proof. exact destroy_cases. Qed.

Theorem C10_destroy_overflow_state_unchanged : forall cfg s si d e, Inv s -> ents s !! d = Some e -> eslot e = si ->
  (arch_next (wrapping cfg) (version s) = None -> force_destroy cfg s si d = Panic PArchOverflow s) /\
  (forall va, arch_next (wrapping cfg) (version s) = Some va -> slot_next (wrapping cfg) (snd e) = None ->
              force_destroy cfg s si d = Panic PSlotOverflow s).
Proof.
  intros cfg s si d e HI Hd Hsi. pose proof (force_destroy_spec cfg s si d e HI Hd Hsi) as H. split.
  - intros Hn. rewrite Hn in H. exact H.
  - intros va Hva Hn. rewrite Hva, Hn in H. exact H.
Qed.

(** The order of effects this rests on is the one translated from the source on this run. *)
Theorem C10_effect_order_is_the_proved_one :
  force_destroy_prog = [DNextArch; DNextSlot; DEvent; DReadLast; DSwapEnts; DSwapCols; DAssignLast; DReleaseWith; DSetArch; DSetHead; DDecLen]
  /\ release_bumps_version = false.
Proof. split; reflexivity. Qed.

(* ---------------------------------------------------------------- run level *)
From Gecs Require Import Query World Borrow Run WorldInv.

(** Every state reached by any history of the run language, in every configuration and for every
    declaration with 8-bit ids, satisfies the invariant of every storage of every world, including
    the states left behind by operations that panicked (capacity and generation overflow, closure
    panics in the three query loops, armed Clone/Drop faults, debug assertions on foreign keys), and
    no step is undefined behaviour.  The hypotheses are the boolean test the check evaluates on the
    histories it runs against the implementation. *)
Theorem C10_every_reachable_state_is_consistent : forall cfg d qs ops, wf_case d ops = true ->
  exists sts, run_states cfg d qs rs0 ops = Some sts /\ Forall (RInv d) sts /\ length sts = length ops.
Proof. exact wf_case_never_ub. Qed.

Theorem C10_one_step : forall cfg d qs st o, wf_decl d -> wf_op d o -> RInv d st ->
  match step cfg d qs st o with Some (st', _) => RInv d st' | None => False end.
Proof. exact step_inv. Qed.

(** Non-vacuity: a history with a generation-overflow panic inside destroy (the F4 witness) and forged keys. *)
Definition c10_decl : wdecl := WD [DA 0%N 0 [DC 0%N 0]; DA 3%N 1 [DC 0%N 0; DC 1%N 1]; DA 4%N 2 [DC 0%N 1; DC 1%N 2; DC 2%N 3]; DA 200%N 3 [DC 0%N 0; DC 1%N 1; DC 2%N 2; DC 3%N 4; DC 4%N 5; DC 5%N 6; DC 6%N 7; DC 7%N 8]] [3].
Definition c10_ops : list op := [ONew [8; 5; 2; 0]; OPreset 0 4294967292%N 4294967295%N; OCreate 0 2%N; OCreate 0 3%N; ODestroy (LArch 0) KEnt TAny (RIssued 1); OReadAll RSlices 0; ODestroy LWorld KEnt (TUnchecked 3) (RRaw 1443157198%N 4172579363%N); OProbe LWorld KEnt TAny (RRaw 772%N 0%N)].
Example C10_history_is_covered : wf_case c10_decl c10_ops = true /\
  nth 4 (run (Config false true true) c10_decl [] c10_ops) [] = [2%N; pcode PArchOverflow].
Proof. vm_compute. split; reflexivity. Qed.
