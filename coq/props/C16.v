(** C16  #[cfg]-disabled archetypes, components and query parameters behave as absent. *)
From Coq Require Import NArith.
From stdpp Require Import base list.
From Gecs Require Import Prim ExtrMacro Query MacroData MacroFacts.
Local Open Scope nat_scope.

(** Declarations: for every declaration and every truth assignment to its predicates (one boolean
    per collected predicate, as the cfg macro chain delivers them), the world data is exactly that
    of the declaration with the disabled items deleted and every cfg attribute removed: ids, names,
    order, everything. *)
Theorem C16_declaration_equals_its_erasure : forall w states, length states = length (world_predicates w) ->
  let lk := cfg_lookup (world_predicates w) states in
  data_world_new w states = data_world_new (erase_world lk w) [].
Proof. intros w states Hl lk. exact (data_world_new_erase w states (world_lookup_total w states Hl)). Qed.

(** Every predicate occurring anywhere in the declaration receives the truth value delivered for it
    (deduplication key = lookup key, order preserved). *)
Theorem C16_lookup_total : forall w states, length states = length (world_predicates w) ->
  total_on (cfg_lookup (world_predicates w) states) w.
Proof. exact world_lookup_total. Qed.

(** Queries: a disabled parameter never excludes an archetype and is emitted under its #[cfg], where
    rustc strips it; on the enabled parameters the binding is exactly that of the query with the
    disabled parameters erased, and the same archetypes get arms.  Scope: no cfg on a OneOf
    parameter, which the code rejects whatever the truth value (second theorem). *)
Theorem C16_query_equals_its_erasure : forall a ps b, no_cfg_oneof ps ->
  Forall (fun p => p_cfgs p = [] -> p_enabled p = true) ps -> bind_params a ps = inr b ->
  (bind_params a (enabled_params ps) = inr (enabled_params b)) /\
  (length b = length ps <-> length (enabled_params b) = length (enabled_params ps)) /\
  (length b <= length ps) /\ (length (enabled_params b) <= length (enabled_params ps)).
Proof. exact bind_params_erase. Qed.

Theorem C16_cfg_on_oneof_is_always_an_error : forall a p cs, p_type p = POneOf cs -> p_cfgs p <> [] ->
  bind_step a p = inl ECfgOnOneOf.
Proof. intros a p cs Ht Hc. unfold bind_step. rewrite Ht. destruct (p_cfgs p); [contradiction|reflexivity]. Qed.

(** The cfg-probing macro_rules! chain, as translated from generate/cfg.rs on this run (both the
    declaration-level and the query-level generator): every link appends its literal, `true` under
    #[cfg(p)] and `false` under #[cfg(not(p))], so the chain delivers the truth values of the collected
    predicates in their order ... *)
Theorem C16_macro_chain_delivers_truth_values_in_order : forall (truth : nat -> bool) (preds : list nat),
  cfg_chain cfg_outer_pos cfg_outer_neg truth preds = truth <$> preds /\
  cfg_chain cfg_inner_pos cfg_inner_neg truth preds = truth <$> preds.
Proof. intros truth preds. split; exact (cfg_chain_in_order truth preds). Qed.

(** ... and with that list the decorated declaration is its erasure, for every truth assignment. *)
Theorem C16_declaration_end_to_end : forall w (truth : nat -> bool),
  let preds := world_predicates w in
  let states := cfg_chain cfg_outer_pos cfg_outer_neg truth preds in
  (forall p, p ∈ preds -> cfg_lookup preds states p = Some (truth p)) /\
  data_world_new w states = data_world_new (erase_world (cfg_lookup preds states) w) [].
Proof. exact data_world_new_chain. Qed.
