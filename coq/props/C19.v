(** C19  Crate features and build profiles change nothing but what they document.
    Every theorem of the other property files quantifies over the configuration
    [cfg = (wrapping, events, debug)] and over the number of columns; the statements below isolate
    what each flag can change. *)
From Coq Require Import NArith.
From stdpp Require Import base list.
From Gecs Require Import Prim ExtrVersion Storage VersionFacts StorageInv StorageResolve StorageOps RunFacts Examples.
Local Open Scope nat_scope.

(** events: only adds the logs. *)
Theorem C19_events_only_adds_logs_create : forall cfg s h x vs,
  clear_events (created_state (with_events cfg true) s h x vs) = clear_events (created_state (with_events cfg false) s h x vs).
Proof. exact created_state_events_conservative. Qed.

Theorem C19_events_only_adds_logs_destroy : forall cfg s si d e le va vs',
  clear_events (destroyed_state (with_events cfg true) s si d e le va vs') =
  clear_events (destroyed_state (with_events cfg false) s si d e le va vs').
Proof. exact destroyed_state_events_conservative. Qed.

Theorem C19_lookups_ignore_events : forall cfg b s h,
  resolve_entity (with_events cfg b) (clear_events s) h = resolve_entity cfg s h /\
  resolve_direct (with_events cfg b) (clear_events s) h = resolve_direct cfg s h.
Proof. intros. split; reflexivity. Qed.

(** wrapping_version: identical below the overflow boundary; at the boundary a wrap instead of a panic. *)
Theorem C19_wrapping_only_at_overflow : forall v, in_ver v -> (v + 1 < 2^32)%N ->
  slot_next true v = slot_next false v /\ arch_next true v = arch_next false v.
Proof. exact next_wrapping_conservative. Qed.

Theorem C19_wrapping_at_overflow : slot_next false (2^32 - 1)%N = None /\ slot_next true (2^32 - 1)%N = Some VERSION_START.
Proof. split; reflexivity. Qed.

(** ... and never undefined behaviour: the invariant and the totality of every lookup hold for both
    settings (the theorems of C03/C10 are stated for every cfg); only the ghost generation bound of
    C01/C08 needs the absence of a wrap. *)
Theorem C19_no_ub_in_every_configuration : forall cfg k s h, Inv s -> key32 h -> destroy_result cfg k s h (destroy cfg k s h).
Proof. exact destroy_cases. Qed.

(** debug assertions: the slot lookup differs in exactly one case (slot index beyond capacity). *)
Theorem C19_debug_changes_one_case : forall cfg s h, Inv s -> key32 h ->
  resolve_entity cfg s h =
    if len s =? 0 then ROk None
    else if (N.of_nat (cap s) <=? hslot h)%N then (if debug cfg then RPanic PDebug else ROk None)
    else match slots s !! N.to_nat (hslot h) with
         | Some (Slot (Data d) v) => if (v =? snd h)%N then ROk (Some (N.to_nat (hslot h), d)) else ROk None
         | _ => ROk None
         end.
Proof. exact resolve_entity_form. Qed.

Theorem C19_debug_conservative : forall cfg s h, Inv s -> key32 h ->
  resolve_entity (with_debug cfg true) s h <> RPanic PDebug ->
  resolve_entity (with_debug cfg true) s h = resolve_entity (with_debug cfg false) s h.
Proof. exact resolve_entity_debug_conservative. Qed.

(* ---------------------------------------------------------------- run level *)
From Gecs Require Import Query World Borrow Run WorldInv.

(** In every feature combination the model distinguishes (wrapping_version, events) and with debug
    assertions on or off, no history reaches undefined behaviour: wraparound may let an old handle
    match again, but every state stays invariant. *)
Theorem C19_no_configuration_reaches_ub : forall wrapping events debug d qs ops, wf_case d ops = true ->
  exists sts, run_states (Config wrapping events debug) d qs rs0 ops = Some sts /\ Forall (RInv d) sts.
Proof.
  intros wr ev dbg d qs ops H. destruct (wf_case_never_ub (Config wr ev dbg) d qs ops H) as (sts & ? & ? & _). by exists sts.
Qed.

(* ---------------------------------------------------------------- the events feature, operation by operation *)
From Gecs Require Import FeatureFacts.

(** With the events feature on or off (any two configurations that differ at most in it), on every
    invariant storage: create, create_within_capacity and destroy (any key kind, any 32-bit key) give
    the same outcome, the same returned handle / components and the same resulting storage up to the
    logs; the lookups give the same answer outright; and no operation reads the logs. *)
Theorem C19_events_only_adds_logs : forall c1 c2 s, same_but_events c1 c2 -> Inv s ->
  (forall vs, length vs = length (cols s) -> ores (push c1 s vs) = ores (push c2 s vs)) /\
  (forall vs, length vs = length (cols s) -> ores (push_within c1 s vs) = ores (push_within c2 s vs)) /\
  (forall k h, key32 h -> ores (destroy c1 k s h) = ores (destroy c2 k s h)) /\
  (forall k h, resolve_for c1 k s h = resolve_for c2 k s h /\ to_direct c1 k s h = to_direct c2 k s h).
Proof.
  intros c1 c2 s Hc HI. split_and!.
  - intros vs Hvs. by apply push_events_conservative.
  - intros vs Hvs. by apply push_within_events_conservative.
  - intros k h Hk. by apply destroy_events_conservative.
  - intros k h. by apply lookups_events_conservative.
Qed.

Theorem C19_no_operation_reads_the_logs : forall c s, Inv s ->
  (forall vs, length vs = length (cols s) -> ores (push c (clear_events s) vs) = ores (push c s vs)) /\
  (forall k h, key32 h -> ores (destroy c k (clear_events s) h) = ores (destroy c k s h)).
Proof. intros c s HI. split; [intros; by apply push_ignores_logs|intros; by apply destroy_ignores_logs]. Qed.

(** wrapping_version, operation by operation: create and create_within_capacity are literally the same
    with the feature on or off; destroy (any key) is literally the same except where the checked
    counters overflow, which is exactly where the feature is documented to differ. *)
Theorem C19_wrapping_only_replaces_the_overflow_panic : forall c1 c2 k s h,
  wrapping c1 = false -> same_but_wrapping c1 c2 -> Inv s -> key32 h ->
  match destroy c1 k s h with
  | Panic PArchOverflow _ | Panic PSlotOverflow _ => True
  | r => destroy c2 k s h = r
  end.
Proof. exact wrapping_only_replaces_the_overflow_panic. Qed.

Theorem C19_create_ignores_wrapping : forall c1 c2 s vs, same_but_wrapping c1 c2 -> Inv s -> length vs = length (cols s) ->
  push c1 s vs = push c2 s vs /\ push_within c1 s vs = push_within c2 s vs.
Proof. exact push_ignores_wrapping. Qed.

(** Debug assertions: with them on, a lookup (either key kind, any 32-bit key, any invariant storage)
    either panics on a documented assertion or answers exactly as with them off. *)
Theorem C19_debug_only_adds_assertions : forall c1 c2 k s h, debug c1 = true -> debug c2 = false -> Inv s -> key32 h ->
  match resolve_key c1 k s h with RPanic _ => True | r => resolve_key c2 k s h = r end.
Proof. exact debug_only_adds_assertions. Qed.
