(** C13  A cloned world is observationally identical and thereafter independent.
    Storage level: the clone of an invariant storage is a storage with the same len, capacity,
    version, free list, slots, handles, values and event logs; values are immutable in the model, so
    the two evolve independently by construction (aliasing between the two allocations is outside
    the model and covered by the divergence runs of stream S11 only). *)
From Coq Require Import NArith.
From stdpp Require Import base list.
From Gecs Require Import Prim ExtrStorage Storage StorageInv StorageOps Examples.
Local Open Scope nat_scope.

Theorem C13_clone_is_identical : forall s, Inv s -> clone_storage s = Some s.
Proof. exact clone_storage_spec. Qed.

(** The clone copies slots over the whole capacity and dense data over len, as translated from the source. *)
Theorem C13_clone_bounds_are_the_proved_ones : clone_slots_bound = CBCapacity /\ clone_dense_bound = CBLen /\ drop_bound = CBLen.
Proof. repeat split. Qed.

(** A clone can be refilled to capacity: it satisfies the invariant, whose free list has capacity - len slots. *)
Theorem C13_clone_invariant : forall s s', Inv s -> clone_storage s = Some s' -> Inv s' /\ cap s' = cap s /\ len s' = len s.
Proof. intros s s' HI H. rewrite (clone_storage_spec s HI) in H. injection H as <-. split; [exact HI|split; reflexivity]. Qed.

Example C13_nonvacuous : clone_storage ex4 = Some ex4.
Proof. exact (clone_storage_spec ex4 ex4_inv). Qed.

(* ---------------------------------------------------------------- run level *)
From Gecs Require Import Query World Borrow Run WorldInv.

(** World::clone in any reachable state: either a component's Clone panicked (no new world, the existing
    ones untouched), or the new world is, storage by storage (slots, handles, components, versions,
    pending events, capacity), the state of the cloned world, every existing world is untouched and the
    current world stays current.  Every operation replaces only the world it acts on, so afterwards the
    two evolve independently. *)
Theorem C13_clone_yields_the_same_state : forall cfg d qs st st' obs, RInv d st ->
  step cfg d qs st OClone = Some (st', obs) ->
  match cur_world st with
  | None => st' = st
  | Some w =>
      (obs = [2%N; pcode PClone] /\ worlds st' = worlds st) \/
      (obs = [1%N; N.of_nat (length (worlds st))] /\ worlds st' = worlds st ++ [Some w] /\ cur st' = cur st)
  end.
Proof. exact step_clone_spec. Qed.

From Gecs Require Import LoopFacts HistRun.

(** Independence: every operation of the run language touches at most one existing world; every other
    world (in particular the original of a clone when the clone is operated on, and conversely) is
    left exactly as it was, bit for bit. *)
Theorem C13_an_operation_touches_one_world : forall cfg d qs st o st' obs,
  wf_decl d -> wf_op d o -> RInv d st -> hist_ok_step st o = true -> step cfg d qs st o = Some (st', obs) ->
  exists c, forall i, i <> c -> i < length (worlds st) -> worlds st' !! i = worlds st !! i.
Proof.
  intros cfg d qs st o st' obs Hwf Ho HR Hok Hs.
  pose proof (step_trans true true cfg d qs st o Hwf Ho HR Hok (flags_ok_true o)) as Ht. rewrite Hs in Ht.
  exact (proj2 (proj2 (proj2 (proj2 Ht)))).
Qed.
