(** C15  Archetype and component ids follow the discriminant rule and are unique. *)
From Coq Require Import NArith.
From stdpp Require Import base list.
From Gecs Require Import Prim ExtrMacro Query MacroData MacroFacts.
Local Open Scope nat_scope.

(** For every declaration and every cfg truth assignment: if DataWorld::new succeeds, the archetype
    ids are the enum-discriminant rule (explicit value, else previous + 1, else 0) over the enabled
    archetypes and are pairwise distinct; the same holds for the component ids of each archetype. *)
Theorem C15_ids_follow_rule_and_are_unique : forall w states ds, data_world_new w states = inr ds ->
  let lk := cfg_lookup (world_predicates w) states in
  da_id <$> ds = rule_ids (pa_id <$> enabled_archs lk w) None /\
  da_name <$> ds = pa_name <$> enabled_archs lk w /\
  NoDup (da_id <$> ds) /\
  Forall (fun '(a, d) => dc_id <$> da_comps d = rule_ids (pc_id <$> enabled_comps lk (pa_comps a)) None /\
                         dc_name <$> da_comps d = pc_name <$> enabled_comps lk (pa_comps a) /\
                         NoDup (dc_id <$> da_comps d)) (zip (enabled_archs lk w) ds).
Proof. exact data_world_new_ids. Qed.

(** Implicit ids never count past 255. *)
Theorem C15_implicit_ids_fit_u8 : forall w states ds, data_world_new w states = inr ds ->
  Forall (fun '(a, d) => pa_id a = None -> (da_id d < 256)%N)
         (zip (enabled_archs (cfg_lookup (world_predicates w) states) w) ds).
Proof. exact data_world_new_implicit_ids_u8. Qed.

(** The two ways the id assignment fails are genuine: the successor of 255, or an id already held. *)
Theorem C15_exceeds_only_past_255 : forall explicit name ids last n,
  advance_attribute_id explicit name ids last = inl (EExceeds n) ->
  explicit = None /\ exists l, last = Some l /\ (256 <= l + 1)%N.
Proof. exact advance_err_exceeds. Qed.

Theorem C15_assigned_only_if_held : forall explicit name ids last i n h,
  advance_attribute_id explicit name ids last = inl (EAssigned i n h) ->
  (i, h) ∈ ids /\ i = match explicit with Some i => i | None => match last with Some l => (l + 1)%N | None => 0%N end end.
Proof. exact advance_err_assigned. Qed.

(** The first id and the successor are the expressions translated from data.rs. *)
Theorem C15_translated_rule : attr_first = 0%N /\ forall l, attr_succ l = if (l + 1 <? 256)%N then Some (l + 1)%N else None.
Proof. split; [reflexivity|exact attr_succ_spec]. Qed.

Example C15_nonvacuous :
  data_world_new [PA [] None 0 [PC [] None 0]; PA [] (Some 3%N) 1 [PC [] None 0; PC [] (Some 7%N) 1; PC [] None 2]; PA [] None 2 [PC [] None 1]] []
  = inr [DA 0 0 [DC 0 0]; DA 3 1 [DC 0 0; DC 7 1; DC 8 2]; DA 4 2 [DC 0 1]].
Proof. vm_compute. reflexivity. Qed.

(** Both directions: for every declaration and truth assignment under which every cfg predicate has a
    state, DataWorld::new succeeds exactly when the discriminant rule is satisfiable (no implicit id
    past 255, ids pairwise distinct) for the enabled archetypes and for the enabled components of each
    enabled archetype.  A declaration that would duplicate an id or count past 255 does not compile,
    and no other declaration is refused. *)
Theorem C15_compiles_iff_rule_satisfiable : forall w states,
  let lk := cfg_lookup (world_predicates w) states in
  Forall (fun a => is_Some (evaluate_cfgs lk (pa_cfgs a)) /\ Forall (fun c => is_Some (evaluate_cfgs lk (pc_cfgs c))) (pa_comps a)) w ->
  ((exists ds, data_world_new w states = inr ds) <->
   (rule_ok (pa_id <$> enabled_archs lk w) None [] /\
    Forall (fun a => rule_ok (pc_id <$> enabled_comps lk (pa_comps a)) None []) (enabled_archs lk w))).
Proof. exact data_world_new_succeeds_iff. Qed.

Example C15_refused_instances :
  (* implicit successor of an explicit 255 *)
  data_world_new [PA [] (Some 255%N) 0 [PC [] None 0]; PA [] None 1 [PC [] None 0]] [] = inl (EExceeds 1) /\
  (* an implicit id colliding with an earlier explicit one *)
  data_world_new [PA [] (Some 1%N) 0 [PC [] None 0]; PA [] (Some 0%N) 1 [PC [] None 0]; PA [] None 2 [PC [] None 0]] [] = inl (EAssigned 1 2 0).
Proof. vm_compute. split; reflexivity. Qed.
